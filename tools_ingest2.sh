#!/bin/bash
# usage: tools_ingest2.sh <Cxx>   ingest round-2 sub-agent output /tmp/seed2-out/Cxx/{1,2} as /verif/seeded/Cxx-3, Cxx-4:
# confirm in a scratch worktree, store, then run the quick check with the change applied to /repo (serialised by a lock).
p=$1
for k in 1 2; do
  src=/tmp/seed2-out/$p/$k
  [ -f $src/patch.diff ] || { echo "$p/$k: no patch"; continue; }
  id=$p-$((k+2))
  dst=/verif/seeded/$id
  mkdir -p $dst; cp $src/patch.diff $src/demo_test.go $src/meta.json $dst/ 2>/dev/null
  v=$(/verif/tools_verify_seed.sh $dst 2>&1 | tail -1)
  echo "$id verify: $v"
  echo "$v" > $dst/verify.txt
  (
    flock 9
    /verif/tools_seedtest.sh $dst $p 2>&1 | tee $dst/check.txt
  ) 9>/tmp/repo.lock
done
