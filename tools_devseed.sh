#!/bin/bash
# needs a scratch copy of the repository first:  git -C /repo worktree add --detach /tmp/repodev HEAD   (remove it afterwards: git -C /repo worktree remove --force /tmp/repodev)
# usage: tools_devseed.sh <seed-id|none> <Cxx> [only-substring]   development loop on the scratch copy /tmp/repodev (never /repo)
s=$1; p=$2; only=${3:-V}
cd /tmp/repodev || exit 3
git checkout -q -- . && git clean -fdq
if [ "$s" != none ]; then
  P=/verif/seeded/$s/patch.diff; [ -f /verif/seeded/$s/patch.rebased.diff ] && P=/verif/seeded/$s/patch.rebased.diff
  git apply $P || exit 3
fi
cd /verif && VERIF_REPO=/tmp/repodev timeout 1800 bin/vx check $p --tier ${TIER:-quick} ${only:+--only $only} 2>&1 | grep -E "VIOLATION|INCONCLUSIVE|violated:|KNOWN|PASS|UNREACH|panic" | cut -c1-${W:-300} | head -${N:-12}
cd /tmp/repodev && git checkout -q -- . && git clean -fdq
