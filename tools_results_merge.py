#!/usr/bin/env python3
# usage: tools_results_merge.py <sweep-output.txt>   rewrite seeded/RESULTS.md from a (possibly partial) sweep output;
# seeds the sweep did not reach keep the result recorded in their meta.json by the previous full sweep and are marked so.
import re,json,sys,glob,os
txt=open(sys.argv[1]).read()
done={}
for b in re.split(r'\n(?=== )','\n'+txt):
    m=re.match(r'== (\S+) (C\d+) rc=(\d+)', b.strip())
    if not m: continue
    name,prop,rc=m.groups()
    ids=sorted(set(re.findall(r'violated: (\S+) \((\S+)\)', b)))
    inc=re.findall(r'INCONCLUSIVE property=\S+ (.{0,200})', b)
    done[name]=(prop,rc,ids,inc)
rows=[]; fresh=0
for d in sorted(glob.glob('/verif/seeded/C*-*')):
    name=os.path.basename(d); mp=d+'/meta.json'
    if not os.path.exists(mp): continue
    meta=json.load(open(mp))
    if name in done:
        prop,rc,ids,inc=done[name]; fresh+=1
        meta['detected']=(rc=='1')
        meta['check_result']={'exit_code':int(rc),'violated_assertions':[f'{a} [{h}]' for a,h in ids],'inconclusive':inc[:2],'sweep':'final'}
        meta['check_command']=f'git -C /repo apply <patch>; bin/vx check {prop} --tier quick; git -C /repo checkout -- .'
        json.dump(meta,open(mp,'w'),indent=1)
        mark=''
    else:
        cr=meta.get('check_result')
        if not cr: continue
        prop=meta['property']; rc=str(cr.get('exit_code')); mark=' (previous sweep)'
    cr=meta['check_result']
    first=(cr.get('violated_assertions') or cr.get('inconclusive') or ['-'])[0][:110]
    rows.append((name,prop,meta.get('origin','')[:40],meta.get('summary','')[:100],rc+mark,first))
with open('/verif/seeded/RESULTS.md','w') as f:
    det=sum(1 for r in rows if r[4].startswith('1'))
    f.write(f'# Seeded changes vs quick checks: {det} of {len(rows)} reported as VIOLATION (exit 1, counterexample reproduced on the real build)\n\n')
    if fresh<len(rows):
        f.write(f'{fresh} of the {len(rows)} rows are from the final sweep (machinery as committed); rows marked "(previous sweep)" were not reached by it before the time ran out and show the result of the preceding full sweep.\n\n')
    f.write('| seed | property | origin | change | exit | first violated assertion [harness] / reason |\n|---|---|---|---|---|---|\n')
    for r in rows: f.write('| '+' | '.join(r)+' |\n')
print(open('/verif/seeded/RESULTS.md').read()[:300]); print('fresh',fresh,'rows',len(rows))
