#!/usr/bin/env python3
# Regenerates /verif/MANIFEST.json from the table below (kept in sync with engine/cmd/vx/props.go).
import json
props=[json.loads(l) for l in open('/verif/properties.jsonl')]
ids=[p['id'] for p in props]
claimed={
 "C03": ("unit: Validate/validateResponseAttributes executed symbolically from go/ssa on a fully symbolic types.Response (0..2 assertions quick, 0..3 thorough); acceptance <=> specification predicate; typed error names a violated conjunct", "dependency models: time.Parse as uninterpreted (ok,instant) functions of the string; dsig.Clock.Now as fresh non-decreasing symbolic instants; instants are int64 ns", "3 C03"),
 "C05": ("unit: VerifyAssertionConditions and the hard-expiry loop of Validate with symbolic clock readings and symbolic parse results; half-open window exactness, missing/unparsable bounds rejected with the typed error", "time.Parse(RFC3339) represented by uninterpreted ok(s)/P(s); comparison semantics of time.Time.Before/After modelled as instant comparison (int64 ns)", "3 C05"),
 "C06": ("unit: VerifyAssertionConditions with 0..2 (thorough 0..3) restrictions x audiences, OneTimeUse, ProxyRestriction; warnings mirror the conditions exactly (SMT string equality)", "as C05", "3 C06"),
 "C10": ("unit: ValidateDecodedLogoutRequest/Response against the specification predicate incl. typed errors (orchestration of the POST validators: see notes)", "symbolic structs; encoding/xml decoding of logout messages not part of this check", "3 C10"),
 "C12": ("unit: maybeDeflate with symbolic limit (any int64>=0), symbolic inflated size and decoder verdicts; bounded materialisation, exact size rejection, transparency w.r.t. the raw presentation", "compress/flate + io.LimitReader + io.ReadAll replaced by a functional model (inflate/take uninterpreted with length axioms)", "3 C12"),
 "C13": ("unit (partial): key actually used by SigningContext(), certificate embedded, GetSigningCertBytes() agree for all 16 key configurations x any algorithm string; cached context", "real goxmldsig NewSigningContext/SetSignatureMethod code executed from SSA; signature computation and post-serialisation verification are outside", "3 C13"),
 "C18": ("unit (partial): uuid.NewV4/String over a symbolic crypto/rand stream, 300 consecutive calls: version/variant bits, free bits are exactly the bytes just drawn, canonical rendering, hex injectivity", "crypto/rand modelled as a stream of symbolic bytes; fmt %x as nibble-wise hex function; unpredictability of the OS generator not decided", "3 C18"),
 "C19": ("unit: Metadata/MetadataWithSLO on symbolic configuration: entity id, endpoints, flags, validity arithmetic, published key descriptors equal the keys SigningContext()/getDecryptCert() really use for all key configurations", "base64 as uninterpreted injective function; XML marshalling of the descriptor outside", "3 C19"),
}
checks=[]
for pid in ids:
    if pid in claimed:
        text,note,ref=claimed[pid]
        checks.append({"property_id":pid,"quick_cmd":f"bin/vx check {pid} --tier quick","thorough_cmd":f"bin/vx check {pid} --tier thorough",
          "evidence_file":f"evidence/{pid}.json","replay_cmd_template":"bin/vx replay {path}","engine":"vx",
          "level_claimed":{"category":"model_checking","text":"bounded symbolic execution of the real go/ssa code with SMT (z3/cvc5) deciding every assertion for all inputs within the stated bounds; counterexamples replayed on the native build before being reported. "+text,"design_ref":"DESIGN.md section "+ref},
          "level_note":note,"technique":"SSA symbolic execution + SMT (z3 4.8.12 / z3 5.1 / cvc5 portfolio), native replay of counterexamples"})
na=[{"property_id":p,"reason":"check not built yet (work in progress; see DESIGN.md section 3)"} for p in ids if p not in claimed]
m={"version":1,
 "setup_cmd":"cd engine && GOFLAGS=-mod=mod GOPROXY=off GOSUMDB=off GOTOOLCHAIN=local go build -o ../bin/vx ./cmd/vx",
 "hooks":{"guard":"verif","enable":"no hooks in /repo: harness/model/replay sources carry //go:build verif and are injected by overlay (go/packages Overlay for SSA, go test -c -overlay -tags verif for replay)","baseline_off_cmd":"cd /repo && GOFLAGS=-mod=mod GOPROXY=off GOTOOLCHAIN=local go test -json -vet=off -count=1 -timeout 25m ./...","source_commits":[],"add_only":True},
 "engines":[{"name":"vx","path":"engine","serves_properties":sorted(claimed),"kind_free_text":"forking go/ssa symbolic executor (stateless search) + SMT-LIB2 back ends (z3, z3-new, cvc5), counterexamples replayed on the real build"}],
 "checks":checks,
 "notes":"exit 0 = held on everything explored; exit 1 + VIOLATION line only after the counterexample reproduced on the native build; exit 2 = inconclusive (unknown/timeout/unmodelled call/unwinding bound/spurious counterexample). Genuine defects found and repaired are listed in known_findings.json (status fixed).",
 "not_applicable":na}
json.dump(m,open('/verif/MANIFEST.json','w'),indent=1)
print(len(checks),"checks",len(na),"n/a")
