#!/bin/bash
# usage: tools_ingest4.sh <Cxx>   round 4: /tmp/seed4-out/Cxx/{1,2} are behaviour-preserving changes (stored as
# /verif/seeded/benign/Cxx-b1, -b2), /tmp/seed4-out/Cxx/3 is a property-breaking change (stored as /verif/seeded/Cxx-7).
p=$1
export GOFLAGS=-mod=mod GOPROXY=off GOSUMDB=off GOTOOLCHAIN=local
for k in 1 2; do
  src=/tmp/seed4-out/$p/$k
  [ -f $src/patch.diff ] || { echo "$p/$k: no patch"; continue; }
  id=$p-b$k; dst=/verif/seeded/benign/$id
  mkdir -p $dst; cp $src/patch.diff $src/meta.json $dst/ 2>/dev/null
  wt=/tmp/vben-$id; rm -rf $wt; git -C /repo worktree add -q --detach $wt HEAD || continue
  res="applies=NO"
  if (cd $wt && git apply $dst/patch.diff 2>/dev/null); then
    res="applies=yes"
    if (cd $wt && go build ./... 2>/dev/null); then res="$res builds=yes"; else res="$res builds=NO"; fi
    fails=$(cd $wt && go test -vet=off -count=1 ./... 2>&1 | grep -E "^--- FAIL" | awk '{print $3}' | sort | tr '\n' ',')
    res="$res suite_failures=[$fails]"
  fi
  echo "$id verify: $res"; echo "$res" > $dst/verify.txt
  git -C /repo worktree remove --force $wt; rm -rf $wt
  python3 - "$dst" "$id" "$res" <<'PY'
import json,sys
d,i,v=sys.argv[1:4]
m=json.load(open(d+'/meta.json'))
m['id']=i; m['expected']='no violation (behaviour-preserving change)'
m['origin']='independent sub-agent (fourth round) given only the property text and a scratch worktree; asked for refactorings that keep the property'
m['confirmed_by_me']='scratch worktree of /repo HEAD: '+v
json.dump(m,open(d+'/meta.json','w'),indent=1)
PY
done
src=/tmp/seed4-out/$p/3
if [ -f $src/patch.diff ]; then
  id=$p-7; dst=/verif/seeded/$id
  mkdir -p $dst; cp $src/patch.diff $src/demo_test.go $src/meta.json $dst/ 2>/dev/null
  v=$(/verif/tools_verify_seed.sh $dst 2>&1 | tail -1)
  echo "$id verify: $v"; echo "$v" > $dst/verify.txt
  python3 - "$dst" "$id" "$v" <<'PY'
import json,sys
d,i,v=sys.argv[1:4]
m=json.load(open(d+'/meta.json'))
m['id']=i
if 'needs' not in m: m['needs']=m.get('argument','')
m['origin']='independent sub-agent (fourth round: told which ideas were already used) given only the property text and a scratch worktree'
m['patch']='patch.diff'
m['confirmed_by_me']='tools_verify_seed.sh in a scratch worktree of /repo HEAD under /tmp: '+v.replace('name='+i+' ','')
json.dump(m,open(d+'/meta.json','w'),indent=1)
PY
fi
