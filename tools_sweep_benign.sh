#!/bin/bash
# needs a scratch copy of the repository first:  git -C /repo worktree add --detach /tmp/repodev HEAD   (remove it afterwards: git -C /repo worktree remove --force /tmp/repodev)
# Runs the quick check of its property on every behaviour-preserving change under /verif/seeded/benign (applied to the
# scratch copy /tmp/repodev, never /repo) and writes /verif/seeded/RESULTS-benign.md. Expected: no VIOLATION anywhere.
out=/tmp/sweep-benign.txt; : > $out
for d in /verif/seeded/benign/C*/; do
  s=$(basename $d); p=${s%%-*}
  cd /tmp/repodev && git checkout -q -- . && git clean -fdq && git apply $d/patch.diff || { echo "== $s $p rc=3" >> $out; continue; }
  r=$(cd /verif && VERIF_REPO=/tmp/repodev VERIF_EVIDENCE_DIR=/verif/evidence/dev2 VX_BUDGET=600 timeout 2400 bin/vx check $p --tier quick 2>&1); rc=$?
  echo "== $s $p rc=$rc" >> $out
  echo "$r" | grep -E "VIOLATION|INCONCLUSIVE|violated:|^PASS" | cut -c1-260 | head -4 >> $out
  cd /tmp/repodev && git checkout -q -- . && git clean -fdq
done
python3 - <<'PY'
import re,json
txt=open('/tmp/sweep-benign.txt').read()
rows=[]
for b in re.split(r'\n(?=== )','\n'+txt):
    m=re.match(r'== (\S+) (C\d+) rc=(\d+)', b.strip())
    if not m: continue
    s,p,rc=m.groups()
    meta=json.load(open(f'/verif/seeded/benign/{s}/meta.json'))
    why=''
    if rc!='0':
        mm=re.search(r'(INCONCLUSIVE property=\S+ .{0,160}|violated: .{0,160})', b)
        why=mm.group(1) if mm else ''
    meta['check_result']={'exit_code':int(rc),'note':why}
    json.dump(meta,open(f'/verif/seeded/benign/{s}/meta.json','w'),indent=1)
    rows.append((s,p,meta.get('summary','')[:110],rc,why[:140]))
with open('/verif/seeded/RESULTS-benign.md','w') as f:
    n0=sum(1 for r in rows if r[3]=='0'); n1=sum(1 for r in rows if r[3]=='1')
    f.write(f'# Behaviour-preserving changes vs quick checks: {n0} of {len(rows)} PASS (exit 0), {n1} VIOLATION (false alarms), {len(rows)-n0-n1} INCONCLUSIVE (exit 2)\n\n')
    f.write('| change | property | what it does | exit | note |\n|---|---|---|---|---|\n')
    for r in rows: f.write('| '+' | '.join(r)+' |\n')
print(open('/verif/seeded/RESULTS-benign.md').read()[:300])
PY
