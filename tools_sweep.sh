#!/bin/bash
# Runs every seeded change under /verif/seeded against the quick check of its property (tools_seedtest.sh)
# and rewrites /verif/seeded/RESULTS.md and the detection fields of each meta.json.
# /repo must be clean and must not be touched while this runs.
out=/tmp/sweep-$$.txt; : > $out
for d in /verif/seeded/*/; do
  n=$(basename $d); [ -f $d/meta.json ] || continue
  p=$(python3 -c "import json;print(json.load(open('$d/meta.json'))['property'])")
  VX_BUDGET=${VX_BUDGET:-300} /verif/tools_seedtest.sh $d $p >> $out 2>&1
done
python3 - "$out" <<'PY'
import re,json,sys,os
txt=open(sys.argv[1]).read()
rows=[]
for b in re.split(r'\n(?=== )','\n'+txt):
    m=re.match(r'== (\S+) (C\d+) rc=(\d+)', b.strip())
    if not m: continue
    name,prop,rc=m.groups()
    ids=sorted(set(re.findall(r'violated: (\S+) \((\S+)\)', b)))
    inc=re.findall(r'INCONCLUSIVE property=\S+ (.{0,200})', b)
    mp=f'/verif/seeded/{name}/meta.json'
    meta=json.load(open(mp))
    meta['detected']=(rc=='1')
    meta['check_result']={'exit_code':int(rc),'violated_assertions':[f'{a} [{h}]' for a,h in ids],'inconclusive':inc[:2]}
    meta['check_command']=f'git -C /repo apply <patch>; bin/vx check {prop} --tier quick; git -C /repo checkout -- .'
    json.dump(meta,open(mp,'w'),indent=1)
    rows.append((name,prop,meta.get('origin','')[:40],meta.get('summary','')[:100],rc,(meta['check_result']['violated_assertions'] or inc[:1] or ['-'])[0][:110]))
with open('/verif/seeded/RESULTS.md','w') as f:
    det=sum(1 for r in rows if r[4]=='1')
    f.write(f'# Seeded changes vs quick checks: {det} of {len(rows)} reported as VIOLATION (exit 1, counterexample reproduced on the real build)\n\n')
    f.write('| seed | property | origin | change | exit | first violated assertion [harness] / reason |\n|---|---|---|---|---|---|\n')
    for r in rows: f.write('| '+' | '.join(r)+' |\n')
print(open('/verif/seeded/RESULTS.md').read()[:400])
PY
