#!/bin/bash
# needs a scratch copy of the repository first:  git -C /repo worktree add --detach /tmp/repodev HEAD   (remove it afterwards: git -C /repo worktree remove --force /tmp/repodev)
# usage: tools_devbenign.sh <benign-id> <Cxx>   apply a behaviour-preserving change to the scratch copy /tmp/repodev and run the quick check
s=$1; p=$2
cd /tmp/repodev || exit 3
git checkout -q -- . && git clean -fdq
git apply /verif/seeded/benign/$s/patch.diff || exit 3
cd /verif && VERIF_REPO=/tmp/repodev timeout 2400 bin/vx check $p --tier quick --only V 2>&1 | grep -E "VIOLATION|INCONCLUSIVE|violated:|PASS" | cut -c1-${W:-260} | head -${N:-6}
cd /tmp/repodev && git checkout -q -- . && git clean -fdq
