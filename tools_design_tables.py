#!/usr/bin/env python3
# Regenerates the abridged seed table of DESIGN.md section 9 and the cost table of section 10 from
# seeded/RESULTS.md, the evidence files, a log of the quick run (argv[1]) and notes/thorough-run-*.txt.
import json,re,glob,sys
p='/verif/DESIGN.md'
s=open(p).read()
res=open('/verif/seeded/RESULTS.md').read()
head=res.splitlines()[0]
m=re.search(r'(\d+) of (\d+)',head); det,tot=m.group(1),m.group(2)
rows=[l for l in res.splitlines() if l.startswith('| C')]
i=s.index('The table for the whole corpus (')
j=s.index('### 9.1 Second and third seeding rounds')
new_tbl=f'''The table for the whole corpus ({tot} property-breaking changes; `tools_sweep.sh`, quick tier, each change applied to `/repo`, checked,
undone) is `/verif/seeded/RESULTS.md`: **{det} of {tot} end with exit 1 and a natively reproduced `VIOLATION`**; the
ones that do not are discussed in §9.1 and §9.2. Abridged (seed, property, exit code, first violated assertion [harness]):

| seed | prop | exit | first violated assertion [harness] / reason |
|---|---|---|---|
'''
for r in rows:
    c=[x.strip() for x in r.strip('|').split('|')]
    new_tbl+='| %s | %s | %s | %s |\n'%(c[0],c[1],c[4],c[5][:120])
s=s[:i]+new_tbl+'\n'+s[j:]
k=s.index('## 10. Measured on this machine')
hdr='''## 10. Measured on this machine (16 cores; quick numbers from the committed evidence files, thorough numbers from `notes/thorough-run-2026-10-03c.txt`)

| property | harnesses (quick) | paths (quick) | SSA instructions | solver queries | native replays | wall (quick) | paths (thorough) | wall (thorough) |
|---|---|---|---|---|---|---|---|---|
'''
th={}
for f in sorted(glob.glob('/verif/notes/thorough-run-2026-10-03c.txt')):
    for l in open(f):
        m=re.match(r'PASS property=(C\d+) tier=thorough paths=(\d+) .* wall=([\d.]+)s',l)
        if m: th[m.group(1)]=(m.group(2),m.group(3))
qk={}
for l in open(sys.argv[1]):
    m=re.match(r'PASS property=(C\d+) tier=quick paths=(\d+) ssa_steps=(\d+) queries\(sat=(\d+),unsat=(\d+)\) replayed=(\d+) wall=([\d.]+)s',l)
    if m: qk[m.group(1)]=m.groups()[1:]
def find(o):
    if isinstance(o,list) and o and isinstance(o[0],dict) and 'harness' in o[0]: return len(o)
    if isinstance(o,dict):
        for v in o.values():
            r=find(v)
            if r: return r
    return 0
body=''; tot_q=0
for f in sorted(glob.glob('/verif/evidence/C*.json')):
    pid=f.split('/')[-1][:-5]
    e=json.load(open(f)); nh=find(e.get('coverage',{}))
    q=qk[pid]; tot_q+=float(q[5])
    t=th.get(pid,('',''))
    body+='| %s | %d | %s | %s | %d | %s | %.0f s | %s | %s s |\n'%(pid,nh,q[0],f"{int(q[1]):,}",int(q[2])+int(q[3]),q[4],float(q[5]),t[0],t[1].split('.')[0])
body+='\nAll twenty quick checks together: %.0f s wall (sequential); thorough: %.0f s.\n'%(tot_q,sum(float(v[1]) for v in th.values()))
s=s[:k]+hdr+body
open(p,'w').write(s)
print("tables regenerated:",det,"of",tot)
