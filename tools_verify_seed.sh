#!/bin/bash
# usage: tools_verify_seed.sh <seed-dir>
# Confirms, in a scratch worktree of /repo (HEAD) outside /repo and /verif, that the seeded change
#  (1) applies and compiles, (2) leaves the existing test-suite with only the two baseline failures,
#  (3) makes the demonstration test FAIL, and that (4) the demonstration PASSES without the change.
d=$(readlink -f $1); name=$(basename $d)
export GOFLAGS=-mod=mod GOPROXY=off GOSUMDB=off GOTOOLCHAIN=local
wt=/tmp/vseed-$name
rm -rf $wt; git -C /repo worktree add -q --detach $wt HEAD || exit 3
P="$d/patch.diff"; [ -f "$d/patch.rebased.diff" ] && P="$d/patch.rebased.diff"
res="name=$name"
cd $wt
ddir=$(head -1 $d/demo_test.go | sed -n 's#^// dir: *##p'); [ -z "$ddir" ] && ddir=.
# (4) demo on unchanged tree
cp $d/demo_test.go $wt/$ddir/zz_seed_demo_test.go
if go test -vet=off -count=1 -run TestSeedDemo ./$ddir >/tmp/vseed-$name.clean.log 2>&1; then res="$res demo_on_clean=PASS"; else res="$res demo_on_clean=FAIL"; fi
rm -f $wt/$ddir/zz_seed_demo_test.go
# (1) apply
if git apply "$P" 2>/dev/null; then res="$res applies=yes"; else res="$res applies=NO"; echo "$res"; cd /; git -C /repo worktree remove --force $wt; exit 1; fi
if go build ./... 2>/dev/null; then res="$res builds=yes"; else res="$res builds=NO"; fi
# (2) suite
fails=$(go test -vet=off -count=1 ./... 2>&1 | grep -E "^--- FAIL" | awk '{print $3}' | sort | tr '\n' ',')
res="$res suite_failures=[$fails]"
# (3) demo with change
cp $d/demo_test.go $wt/$ddir/zz_seed_demo_test.go
if go test -vet=off -count=1 -run TestSeedDemo ./$ddir >/tmp/vseed-$name.mut.log 2>&1; then res="$res demo_on_mutant=PASS"; else res="$res demo_on_mutant=FAIL"; fi
echo "$res"
cd /; git -C /repo worktree remove --force $wt; rm -rf $wt
