package main

import (
	"encoding/json"
	"flag"
	"fmt"
	"os"
	"path/filepath"
	"sort"
	"strings"
	"time"

	"verif/engine/smt"
	"verif/engine/sx"
)

// HarnessSpec: one symbolic harness of a property with its per-tier options.
type HarnessSpec struct {
	Name      string
	Unwind    int
	Panics    bool // escaping panics are violations (C09 obligations)
	Thorough  bool // only run in the thorough tier
	QuickOnly bool
	MaxPaths  int
	StepCap   int64
	Replay    string // "native" (same harness compiled natively), "" = none yet
}

type PropSpec struct {
	ID          string
	Harnesses   []HarnessSpec
	Bounds      map[string]string // tier -> bounds text
	Outside     []string
	Assumptions []string
}

var props = map[string]*PropSpec{}
var propOrder []string

func reg(p *PropSpec) {
	props[p.ID] = p
	propOrder = append(propOrder, p.ID)
	sort.Strings(propOrder)
}

type harnessReport struct {
	Name        string           `json:"harness"`
	Paths       int              `json:"paths"`
	PathEnds    map[string]int   `json:"path_ends"`
	Steps       int64            `json:"ssa_instructions_executed"`
	Proved      map[string]int   `json:"assertions_proved_on_paths"`
	Failed      map[string]int   `json:"assertions_failed"`
	Reached     []string         `json:"vacuity_witnesses"`
	Unreached   []string         `json:"vacuity_missing"`
	Inconcl     []string         `json:"inconclusive,omitempty"`
	Functions   map[string]int64 `json:"functions_encoded"`
	Models      []string         `json:"models_used,omitempty"`
	Replayed    int              `json:"replayed"`
	ReplayNotes []string         `json:"replay_notes,omitempty"`
}

func cmdCheck(args []string) int {
	if len(args) < 1 {
		fmt.Fprintln(os.Stderr, "usage: vx check <Cxx> [--tier quick|thorough]")
		return 2
	}
	id := args[0]
	fs := flag.NewFlagSet("check", flag.ExitOnError)
	tier := fs.String("tier", "", "quick|thorough")
	only := fs.String("only", "", "development: run only the harnesses whose name contains this string (evidence goes to $VERIF_DIR/evidence/dev)")
	fs.Parse(args[1:])
	if *tier == "" {
		*tier = os.Getenv("VERIF_TIER")
	}
	if *tier == "" {
		*tier = "quick"
	}
	seed := envInt("VERIF_SEED", 0)
	replayProp = id
	ps, ok := props[id]
	if !ok {
		fmt.Fprintln(os.Stderr, "unknown property", id)
		return 2
	}
	t0 := time.Now()
	evDir := filepath.Join(verifDir, "evidence")
	if *only != "" {
		evDir = filepath.Join(verifDir, "evidence", "dev")
	}
	if v := os.Getenv("VERIF_EVIDENCE_DIR"); v != "" {
		// runs against a deliberately modified tree (seeded changes) keep their evidence apart
		evDir = v
	}
	evPath := filepath.Join(evDir, id+".json")
	os.MkdirAll(filepath.Join(evDir, "cex"), 0o755)
	os.Remove(evPath)
	if old, _ := filepath.Glob(filepath.Join(evDir, "cex", id+"-*.json")); len(old) > 0 {
		for _, f := range old {
			os.Remove(f)
		}
	}

	prog, err := loadProgram()
	if err != nil {
		fmt.Printf("INCONCLUSIVE property=%s reason=load-failed %v\n", id, err)
		return 2
	}
	loadS := time.Since(t0).Seconds()
	known := loadKnown()

	var reports []harnessReport
	var violations []string
	var inconclusive []string
	knownPrinted := map[string]bool{}
	totalStates, totalSteps := 0, int64(0)
	validated := 0
	var samples []interface{}
	assumptions := map[string]bool{}
	cexN := 0

	for _, hs := range ps.Harnesses {
		if hs.Thorough && *tier != "thorough" {
			continue
		}
		if hs.QuickOnly && *tier == "thorough" {
			continue
		}
		if *only != "" && !strings.Contains(hs.Name, *only) {
			continue
		}
		if len(violations) > 0 && os.Getenv("VX_ALL_HARNESSES") == "" {
			// a violation of this property has been reproduced on the real build already: the verdict is settled,
			// the remaining harnesses are not explored (a change that breaks the property often makes them explode)
			reports = append(reports, harnessReport{Name: hs.Name, Inconcl: []string{"not explored: a violation of the property had already been reproduced by an earlier harness"}})
			continue
		}
		x, err := sx.NewExplorer(prog, hs.Name)
		if err != nil {
			inconclusive = append(inconclusive, err.Error())
			continue
		}
		x.Workers = envInt("VX_WORKERS", 14)
		if hs.Unwind > 0 {
			x.Unwind = hs.Unwind
		}
		if hs.MaxPaths > 0 {
			x.MaxPaths = hs.MaxPaths
		}
		x.PanicsAreFailures = hs.Panics
		if hs.StepCap > 0 {
			x.StepCap = hs.StepCap
		}
		x.Budget = time.Duration(envInt("VX_BUDGET", 900)) * time.Second
		x.Known = known
		x.Run()
		x.Canonicalise()
		fmt.Println(x.Summary())

		rep := harnessReport{Name: hs.Name, Paths: len(x.Paths), PathEnds: map[string]int{}, Steps: x.TotalSteps,
			Proved: x.AssertsProved, Failed: x.AssertsFailed, Functions: x.FnSteps}
		for _, p := range x.Paths {
			rep.PathEnds[p.End]++
		}
		for l := range x.ReachWanted {
			if _, ok := x.Reached[l]; ok {
				rep.Reached = append(rep.Reached, l)
			} else {
				rep.Unreached = append(rep.Unreached, l)
			}
		}
		sort.Strings(rep.Reached)
		sort.Strings(rep.Unreached)
		// vacuity: paths that died in a panic before their assertions were evaluated decide nothing for this property.
		// Where panics are not this harness's obligation (C09 reports them itself) they make the run inconclusive.
		if n := rep.PathEnds["panic"]; n > 0 && id != "C09" && !hs.Panics {
			msg := ""
			for _, p := range x.Paths {
				if p.End == "panic" {
					msg = p.Msg
					break
				}
			}
			x.Inconclusive = append(x.Inconclusive, fmt.Sprintf("%d of %d paths ended in a panic before their assertions were decided (%s): nothing is claimed for them", n, len(x.Paths), firstLine(msg)))
		}
		if len(x.Paths) > 0 && len(x.AssertsProved) == 0 && len(x.AssertsFailed) == 0 && len(x.Reached) == 0 {
			x.Inconclusive = append(x.Inconclusive, "no assertion and no vacuity witness was reached on any path")
		}
		seen := map[string]bool{}
		for _, s := range x.Inconclusive {
			if !seen[s] {
				seen[s] = true
				rep.Inconcl = append(rep.Inconcl, s)
			}
		}
		for _, u := range rep.Unreached {
			rep.Inconcl = append(rep.Inconcl, "vacuity: label never reached: "+u)
		}
		for a := range x.Assumptions {
			assumptions[a] = true
		}
		for m := range x.Models {
			rep.Models = append(rep.Models, m)
		}
		sort.Strings(rep.Models)
		totalStates += len(x.Paths)
		totalSteps += x.TotalSteps

		// witnesses: replay a few on the real build (model validation) and keep as samples
		labels := make([]string, 0, len(x.Reached))
		for l := range x.Reached {
			labels = append(labels, l)
		}
		sort.Strings(labels)
		for i, l := range labels {
			w := x.Reached[l]
			if len(samples) < 6 {
				samples = append(samples, map[string]interface{}{"harness": hs.Name, "witness_for": l, "inputs": w.Inputs})
			}
			if (hs.Replay == "native" || hs.Replay == "race") && (i < 3 || *tier == "thorough") {
				// up to 4 witnesses (from different paths) per label: one must reproduce natively
				ok, note := false, ""
				for _, ww := range x.ReachedAll[l] {
					ok, note = replayNative(hs.Name, "reach:"+l, ww.Inputs, nil)
					if ok {
						break
					}
				}
				if ok {
					validated++
					rep.Replayed++
				} else {
					rep.ReplayNotes = append(rep.ReplayNotes, "witness "+l+": "+note)
					rep.Inconcl = append(rep.Inconcl, "witness for "+l+" did not reproduce on the real build: "+note)
				}
			}
		}

		// failures: dedupe per assertion id, replay before reporting
		replaySiblings = map[string]bool{}
		for _, f := range x.Failures {
			if f.Kind == "assert" && f.Known == "" {
				replaySiblings[f.AssertID] = true
			}
		}
		byID := map[string][]*sx.Failure{}
		var ids []string
		for _, f := range x.Failures {
			// a harness shared between properties reports each assertion under the property its id names
			if f.Kind == "assert" && !assertionBelongsTo(f.AssertID, id) {
				continue
			}
			if f.Kind == "panic" && id != "C09" && !hs.Panics {
				continue
			}
			key := f.AssertID
			if f.Kind == "panic" {
				key = f.AssertID + " @ " + f.Where
			}
			if f.Known != "" {
				key = "known:" + f.Known
			}
			if _, ok := byID[key]; !ok {
				ids = append(ids, key)
			}
			byID[key] = append(byID[key], f)
		}
		sort.Strings(ids)
		for _, key := range ids {
			fl := byID[key]
			f := fl[0]
			if f.Known != "" {
				if !knownPrinted[f.Known] {
					// the listed finding's own counterexample is replayed as well
					repro := true
					note := ""
					if hs.Replay == "native" {
						repro, note = replayNative(hs.Name, f.AssertID, f.Inputs, f)
					}
					if repro {
						knownPrinted[f.Known] = true
						fmt.Printf("KNOWN-FINDING: property=%s %s\n", id, f.Known)
					} else {
						rep.ReplayNotes = append(rep.ReplayNotes, "known finding did not reproduce: "+note)
					}
				}
				continue
			}
			// try up to 3 distinct counterexamples for this assertion
			reported := false
			var lastNote string
			for i := 0; i < len(fl) && i < 3 && !reported; i++ {
				f := fl[i]
				cexN++
				path := filepath.Join(evDir, "cex", fmt.Sprintf("%s-%d.json", id, cexN))
				writeCex(path, id, hs.Name, f)
				if hs.Replay == "race" {
					ok, note := replayRace(hs.Name, f.Inputs)
					if !ok {
						ok, note = replayNative(hs.Name, f.AssertID, f.Inputs, f)
					}
					lastNote = note
					if ok {
						validated++
						rep.Replayed++
						violations = append(violations, fmt.Sprintf("VIOLATION property=%s replay=%s", id, path))
						fmt.Printf("  violated: %s (%s) %s %s\n", f.AssertID, hs.Name, f.Msg, firstLine(note))
						reported = true
					}
				} else if hs.Replay == "native" {
					ok, note := replayNative(hs.Name, f.AssertID, f.Inputs, f)
					lastNote = note
					if ok {
						validated++
						rep.Replayed++
						violations = append(violations, fmt.Sprintf("VIOLATION property=%s replay=%s", id, path))
						fmt.Printf("  violated: %s (%s) %s %s\n", f.AssertID, hs.Name, f.Msg, f.Where)
						reported = true
					}
				} else {
					lastNote = "no replay available for this harness"
				}
			}
			if !reported {
				rep.Inconcl = append(rep.Inconcl, fmt.Sprintf("spurious-cex or unreplayable: assertion %s: %s", f.AssertID, lastNote))
			}
		}
		for _, s := range rep.Inconcl {
			inconclusive = append(inconclusive, hs.Name+": "+s)
		}
		reports = append(reports, rep)
	}

	// translator validation: encoding/xml model vs the real decoder on the repo's fixtures
	var xmlmNote interface{}
	if (id == "C08" || id == "C20") && *tier == "thorough" {
		rep, err := runXMLMDiff()
		if err != nil {
			inconclusive = append(inconclusive, "xmlm differential: "+err.Error())
		} else {
			xmlmNote = rep
			validated += rep.Agree
			for _, d := range rep.Disagree {
				inconclusive = append(inconclusive, "xmlm model disagrees with encoding/xml on a repo fixture: "+d)
			}
			fmt.Printf("xmlm differential: fixtures=%d decodings=%d agree=%d disagree=%d skipped=%d\n", rep.Fixtures, rep.Compared, rep.Agree, len(rep.Disagree), len(rep.Skipped))
		}
	}
	wall := time.Since(t0).Seconds()
	if len(samples) == 0 {
		samples = append(samples, map[string]interface{}{"note": "no vacuity witness produced"})
	}
	asm := []string{"bounded claim: holds for every input within the stated bounds under the listed dependency contracts; nothing is claimed outside them"}
	for a := range assumptions {
		asm = append(asm, a)
	}
	asm = append(asm, ps.Assumptions...)
	sort.Strings(asm)
	perBackend := map[string]int64{}
	smt.GlobalStats.PerBackend.Range(func(k, v interface{}) bool {
		perBackend[k.(string)] = *(v.(*int64))
		return true
	})
	ev := map[string]interface{}{
		"property_id": id,
		"tier":        *tier,
		"seed":        seed,
		"level":       "model_checking",
		"coverage": map[string]interface{}{
			"states":                        totalStates,
			"transitions":                   totalSteps,
			"traces_validated_against_impl": validated,
			"samples":                       samples,
			"explanation":                   "states = symbolic paths of the real go/ssa code completed (each covers every input satisfying its path condition); transitions = SSA instructions executed symbolically; traces_validated = vacuity witnesses and counterexamples concretised and re-run on the native build",
			"harnesses":                     reports,
			"bounds":                        ps.Bounds[*tier],
			"outside_claim":                 ps.Outside,
			"queries":                       map[string]int64{"sat": smt.GlobalStats.Sat, "unsat": smt.GlobalStats.Unsat, "unknown": smt.GlobalStats.Unknown},
			"queries_per_backend":           perBackend,
			"solver_time_s":                 float64(smt.GlobalStats.Nanos) / 1e9,
			"load_ssa_s":                    loadS,
			"xmlm_fixture_differential":     xmlmNote,
			"inconclusive":                  nonNil(inconclusive),
			"exhaustive":                    len(inconclusive) == 0,
		},
		"assumptions": asm,
		"wall_s":      wall,
		"violations":  len(violations),
	}
	b, _ := json.MarshalIndent(ev, "", " ")
	os.WriteFile(evPath, b, 0o644)

	for _, v := range violations {
		fmt.Println(v)
	}
	if len(violations) > 0 {
		return 1
	}
	if len(inconclusive) > 0 {
		seen := map[string]bool{}
		for _, s := range inconclusive {
			if !seen[s] {
				seen[s] = true
				fmt.Printf("INCONCLUSIVE property=%s %s\n", id, s)
			}
		}
		return 2
	}
	fmt.Printf("PASS property=%s tier=%s paths=%d ssa_steps=%d queries(sat=%d,unsat=%d) replayed=%d wall=%.1fs\n", id, *tier, totalStates, totalSteps,
		smt.GlobalStats.Sat, smt.GlobalStats.Unsat, validated, wall)
	return 0
}

// assertionBelongsTo: assertion ids are "<props>.<name>" with <props> a comma-separated list of property ids.
func assertionBelongsTo(aid, prop string) bool {
	i := strings.IndexByte(aid, '.')
	if i < 0 {
		return false
	}
	for _, p := range strings.Split(aid[:i], ",") {
		if p == prop {
			return true
		}
	}
	return false
}

func sxNewExplorer(p *sx.Program, name string) (*sx.Explorer, error) { return sx.NewExplorer(p, name) }

func nonNil(s []string) []string {
	if s == nil {
		return []string{}
	}
	return s
}

func writeCex(path, prop, harness string, f *sx.Failure) {
	m := map[string]interface{}{"property": prop, "harness": harness, "assertion": f.AssertID, "kind": f.Kind, "message": f.Msg,
		"where": f.Where, "inputs": f.Inputs, "events": f.Events, "decisions": f.Decisions, "path_condition": f.PC}
	b, _ := json.MarshalIndent(m, "", " ")
	os.WriteFile(path, b, 0o644)
}

func cmdReplay(args []string) int {
	if len(args) < 1 {
		fmt.Fprintln(os.Stderr, "usage: vx replay <cex.json>")
		return 2
	}
	b, err := os.ReadFile(args[0])
	if err != nil {
		fmt.Fprintln(os.Stderr, err)
		return 2
	}
	var m struct {
		Harness   string                 `json:"harness"`
		Assertion string                 `json:"assertion"`
		Inputs    map[string]interface{} `json:"inputs"`
	}
	if err := json.Unmarshal(b, &m); err != nil {
		fmt.Fprintln(os.Stderr, err)
		return 2
	}
	ok, note := replayNative(m.Harness, m.Assertion, m.Inputs, nil)
	fmt.Println("reproduced:", ok, strings.TrimSpace(note))
	if r, _ := runReplay(m.Harness, m.Inputs); r != nil {
		fmt.Printf("native run: failed=%v reached=%v notes=%v panic=%q\n", r.Failed, r.Reached, r.Notes, firstLine(r.Panic))
	}
	if ok {
		return 1
	}
	return 0
}
