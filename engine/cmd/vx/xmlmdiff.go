package main

// xmlm differential (DESIGN 1.4(2)): the repo's own fixtures are pushed through both the real
// encoding/xml decoder (native run) and the executor's struct-tag-driven model (symbolic run on concrete
// trees); the decoded structs must agree field for field.

import (
	"bytes"
	"compress/flate"
	"encoding/base64"
	"fmt"
	"io"
	"os"
	"path/filepath"
	"sort"
	"strconv"
	"strings"
	"sync"

	"github.com/beevik/etree"
)

func findFixtures() []string {
	var out []string
	for _, root := range []string{filepath.Join(repoDir, "testdata"), filepath.Join(repoDir, "providertests", "testdata")} {
		filepath.Walk(root, func(p string, info os.FileInfo, err error) error {
			if err != nil || info.IsDir() {
				return nil
			}
			base := filepath.Base(p)
			if strings.HasSuffix(base, ".pem") || strings.HasSuffix(base, ".crt") || strings.HasSuffix(base, ".cert") || strings.HasSuffix(base, ".key") {
				return nil
			}
			out = append(out, p)
			return nil
		})
	}
	sort.Strings(out)
	return out
}

// loadFixture returns the XML bytes of a fixture (.xml as is; otherwise base64, optionally DEFLATE).
func loadFixture(p string) ([]byte, bool) {
	b, err := os.ReadFile(p)
	if err != nil {
		return nil, false
	}
	t := bytes.TrimSpace(b)
	if len(t) > 0 && t[0] == '<' {
		return t, true
	}
	raw, err := base64.StdEncoding.DecodeString(string(t))
	if err != nil {
		return nil, false
	}
	if len(raw) > 0 && raw[0] == '<' {
		return raw, true
	}
	if infl, err := io.ReadAll(flate.NewReader(bytes.NewReader(raw))); err == nil && len(infl) > 0 && infl[0] == '<' {
		return infl, true
	}
	return nil, false
}

type gen struct {
	b strings.Builder
	n int
}

func (g *gen) elem(e *etree.Element) string {
	g.n++
	v := "e" + strconv.Itoa(g.n)
	tag := e.Tag
	if e.Space != "" {
		tag = e.Space + ":" + e.Tag
	}
	fmt.Fprintf(&g.b, "\t%s := etree.NewElement(%q)\n", v, tag)
	for _, a := range e.Attr {
		k := a.Key
		if a.Space != "" {
			k = a.Space + ":" + a.Key
		}
		fmt.Fprintf(&g.b, "\t%s.CreateAttr(%q, %q)\n", v, k, a.Value)
	}
	for _, c := range e.Child {
		switch t := c.(type) {
		case *etree.Element:
			cv := g.elem(t)
			fmt.Fprintf(&g.b, "\t%s.AddChild(%s)\n", v, cv)
		case *etree.CharData:
			fmt.Fprintf(&g.b, "\t%s.CreateText(%q)\n", v, t.Data)
		}
	}
	return v
}

// genFixtureHarness writes one harness per decodable fixture; returns the Go source and the harness names.
func genFixtureHarness() (string, []string, []string) {
	var src strings.Builder
	src.WriteString("//go:build verif\n\npackage saml2\n\nimport (\n\t\"github.com/beevik/etree\"\n\t\"github.com/russellhaering/gosaml2/types\"\n)\n\nvar _ = etree.NewElement\nvar _ types.Response\n\n")
	var names, files []string
	for i, f := range findFixtures() {
		xmlb, ok := loadFixture(f)
		if !ok {
			continue
		}
		doc := etree.NewDocument()
		if err := doc.ReadFromBytes(xmlb); err != nil || doc.Root() == nil {
			continue
		}
		g := &gen{}
		root := g.elem(doc.Root())
		name := fmt.Sprintf("VH_XMLM_fixture_%03d", i)
		fmt.Fprintf(&src, "// %s\nfunc %s() {\n%s", strings.TrimPrefix(f, repoDir+"/"), name, g.b.String())
		switch doc.Root().Tag {
		case "Response":
			fmt.Fprintf(&src, "\tr := &types.Response{}\n\terr := xmlUnmarshalElement(%s, r)\n\tvDump(%q, err == nil, r)\n", root, name)
			fmt.Fprintf(&src, "\tu := &types.UnverifiedBaseResponse{}\n\terr2 := xmlUnmarshalElement(%s, u)\n\tvDump(%q, err2 == nil, u)\n", root, name+"/unverified")
		case "Assertion":
			fmt.Fprintf(&src, "\tr := &types.Assertion{}\n\terr := xmlUnmarshalElement(%s, r)\n\tvDump(%q, err == nil, r)\n", root, name)
		case "LogoutResponse":
			fmt.Fprintf(&src, "\tr := &types.LogoutResponse{}\n\terr := xmlUnmarshalElement(%s, r)\n\tvDump(%q, err == nil, r)\n", root, name)
		case "LogoutRequest":
			fmt.Fprintf(&src, "\tr := &LogoutRequest{}\n\terr := xmlUnmarshalElement(%s, r)\n\tvDump(%q, err == nil, r)\n", root, name)
		default:
			fmt.Fprintf(&src, "\tr := &types.Response{}\n\terr := xmlUnmarshalElement(%s, r)\n\tvDump(%q, err == nil, r)\n", root, name)
		}
		src.WriteString("}\n\n")
		names = append(names, name)
		files = append(files, strings.TrimPrefix(f, repoDir+"/"))
	}
	return src.String(), names, files
}

type xmlmReport struct {
	Fixtures int      `json:"fixtures"`
	Compared int      `json:"decodings_compared"`
	Agree    int      `json:"agree"`
	Disagree []string `json:"disagree"`
	Skipped  []string `json:"skipped"`
}

// runXMLMDiff: symbolic (concrete-mode) run of every generated fixture harness vs the native run.
func runXMLMDiff() (*xmlmReport, error) {
	src, names, files := genFixtureHarness()
	dir, err := os.MkdirTemp("", "vxfix")
	if err != nil {
		return nil, err
	}
	defer os.RemoveAll(dir)
	gf := filepath.Join(dir, "zz_vh_fixtures.go")
	if err := os.WriteFile(gf, []byte(src), 0o644); err != nil {
		return nil, err
	}
	extraHarnessFiles = append(extraHarnessFiles, gf)
	// the native binary must contain the generated harnesses: rebuild it
	cleanupReplay()
	replayOnce, raceOnce = sync.Once{}, sync.Once{}
	replayBin, raceBin, replayErr, raceErr, replayDir = "", "", nil, nil, ""
	prog, err := loadProgram()
	if err != nil {
		return nil, err
	}
	rep := &xmlmReport{Fixtures: len(names)}
	for i, name := range names {
		x, err := sxNewExplorer(prog, name)
		if err != nil {
			rep.Skipped = append(rep.Skipped, files[i]+": "+err.Error())
			continue
		}
		x.Workers = 1
		x.Unwind = 100000
		x.StepCap = 200_000_000
		x.Run()
		if len(x.Inconclusive) > 0 || len(x.Paths) != 1 {
			why := fmt.Sprintf("%d paths", len(x.Paths))
			if len(x.Inconclusive) > 0 {
				why = x.Inconclusive[0]
			}
			rep.Skipped = append(rep.Skipped, files[i]+": "+why)
			continue
		}
		r, note := runReplay(name, map[string]interface{}{})
		if r == nil {
			rep.Skipped = append(rep.Skipped, files[i]+": native run: "+note)
			continue
		}
		native := map[string]string{}
		for _, n := range r.Notes {
			if strings.HasPrefix(n, "DUMP ") {
				parts := strings.SplitN(n[5:], " ", 2)
				if len(parts) == 2 {
					native[parts[0]] = parts[1]
				}
			}
		}
		for label, sym := range x.Dumps {
			rep.Compared++
			if native[label] == sym {
				rep.Agree++
			} else {
				d := fmt.Sprintf("%s [%s]\n   model : %.300s\n   native: %.300s", files[i], label, sym, native[label])
				rep.Disagree = append(rep.Disagree, d)
			}
		}
	}
	return rep, nil
}
