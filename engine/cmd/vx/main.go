// vx: solver-based checks of gosaml2 properties (see /verif/DESIGN.md).
//
//	vx check C05 [--tier quick|thorough]     run all harnesses of a property, write evidence, exit 0/1/2
//	vx run VH_C05_validate [--log]           run one harness (debugging)
//	vx replay <cex.json>                     replay a counterexample against the real build
//	vx list
package main

import (
	"encoding/json"
	"flag"
	"fmt"
	"os"
	"path/filepath"
	"runtime/pprof"
	"sort"
	"strconv"
	"strings"
	"time"

	"verif/engine/smt"
	"verif/engine/sx"
)

var (
	verifDir = "/verif"
	repoDir  = "/repo"
)

func main() {
	if v := os.Getenv("VERIF_DIR"); v != "" {
		verifDir = v
	}
	if v := os.Getenv("VERIF_REPO"); v != "" {
		repoDir = v
	}
	if len(os.Args) < 2 {
		fmt.Fprintln(os.Stderr, "usage: vx check|run|replay|list ...")
		os.Exit(2)
	}
	switch os.Args[1] {
	case "check":
		rc := cmdCheck(os.Args[2:])
		cleanupReplay()
		os.Exit(rc)
	case "run":
		os.Exit(cmdRun(os.Args[2:]))
	case "replay":
		os.Exit(cmdReplay(os.Args[2:]))
	case "xmlmdiff":
		rep, err := runXMLMDiff()
		cleanupReplay()
		if err != nil {
			fmt.Fprintln(os.Stderr, err)
			os.Exit(2)
		}
		fmt.Printf("fixtures=%d decodings compared=%d agree=%d disagree=%d skipped=%d\n", rep.Fixtures, rep.Compared, rep.Agree, len(rep.Disagree), len(rep.Skipped))
		for _, d := range rep.Disagree {
			fmt.Println("DISAGREE", d)
		}
		for _, s := range rep.Skipped {
			fmt.Println("SKIPPED", s)
		}
		if len(rep.Disagree) > 0 {
			os.Exit(1)
		}
	case "list":
		for _, p := range propOrder {
			fmt.Println(p, len(props[p].Harnesses), "harnesses")
		}
	default:
		fmt.Fprintln(os.Stderr, "unknown command", os.Args[1])
		os.Exit(2)
	}
}

// extraHarnessFiles: generated harness sources (absolute paths) added to both overlays.
var extraHarnessFiles []string

func overlayFor(symbolic bool) (map[string][]byte, error) {
	ov := map[string][]byte{}
	for _, f := range extraHarnessFiles {
		b, err := os.ReadFile(f)
		if err != nil {
			return nil, err
		}
		ov[filepath.Join(repoDir, filepath.Base(f))] = b
	}
	add := func(dir string) error {
		files, _ := filepath.Glob(filepath.Join(verifDir, "harness", dir, "*.go"))
		for _, f := range files {
			b, err := os.ReadFile(f)
			if err != nil {
				return err
			}
			ov[filepath.Join(repoDir, filepath.Base(f))] = b
		}
		return nil
	}
	if err := add("h"); err != nil {
		return nil, err
	}
	if symbolic {
		if err := add("sym"); err != nil {
			return nil, err
		}
	}
	return ov, nil
}

func loadProgram() (*sx.Program, error) {
	ov, err := overlayFor(true)
	if err != nil {
		return nil, err
	}
	return sx.Load(repoDir, ov, "verif")
}

func cmdRun(args []string) int {
	fs := flag.NewFlagSet("run", flag.ExitOnError)
	logq := fs.Bool("log", false, "log solver queries to /tmp/vx-queries.smt2")
	workers := fs.Int("workers", 8, "workers")
	unwind := fs.Int("unwind", 64, "unwind bound")
	panics := fs.Bool("panics", false, "panics are failures")
	var name string
	if len(args) > 0 && !strings.HasPrefix(args[0], "-") {
		name = args[0]
		args = args[1:]
	}
	fs.Parse(args)
	t0 := time.Now()
	if pf := os.Getenv("VX_CPUPROFILE"); pf != "" {
		f, _ := os.Create(pf)
		pprof.StartCPUProfile(f)
		defer pprof.StopCPUProfile()
	}
	p, err := loadProgram()
	if err != nil {
		fmt.Fprintln(os.Stderr, "load:", err)
		return 2
	}
	fmt.Printf("loaded in %.1fs\n", time.Since(t0).Seconds())
	x, err := sx.NewExplorer(p, name)
	if err != nil {
		fmt.Fprintln(os.Stderr, err)
		return 2
	}
	x.Workers = *workers
	x.Unwind = *unwind
	x.PanicsAreFailures = *panics
	x.Known = loadKnown()
	x.Budget = time.Duration(envInt("VX_BUDGET", 120)) * time.Second
	x.MaxPaths = envInt("VX_MAXPATHS", 200000)
	if *logq {
		f, _ := os.Create("/tmp/vx-queries.smt2")
		defer f.Close()
		x.QueryLog = f
	}
	x.Run()
	fmt.Println(x.Summary())
	for i, f := range x.Failures {
		if i > 10 {
			break
		}
		b, _ := json.MarshalIndent(f, "", " ")
		fmt.Println("FAILURE", string(b))
	}
	seen := map[string]bool{}
	for _, s := range x.Inconclusive {
		if !seen[s] {
			seen[s] = true
			fmt.Println("INCONCLUSIVE", s)
		}
	}
	var missing []string
	for l := range x.ReachWanted {
		if _, ok := x.Reached[l]; !ok {
			missing = append(missing, l)
		}
	}
	sort.Strings(missing)
	if len(missing) > 0 {
		fmt.Println("UNREACHED", missing)
	}
	fmt.Printf("queries sat=%d unsat=%d unknown=%d solver=%.1fs wall=%.1fs\n", smt.GlobalStats.Sat, smt.GlobalStats.Unsat, smt.GlobalStats.Unknown,
		float64(smt.GlobalStats.Nanos)/1e9, time.Since(t0).Seconds())
	if len(x.Failures) > 0 {
		return 1
	}
	if len(x.Inconclusive) > 0 || len(missing) > 0 {
		return 2
	}
	return 0
}

func loadKnown() []sx.KnownFinding {
	b, err := os.ReadFile(filepath.Join(verifDir, "known_findings.json"))
	if err != nil {
		return nil
	}
	var kf struct {
		Findings []sx.KnownFinding `json:"findings"`
	}
	if err := json.Unmarshal(b, &kf); err != nil {
		fmt.Fprintln(os.Stderr, "known_findings.json:", err)
		return nil
	}
	return kf.Findings
}

func envInt(name string, def int) int {
	if v := os.Getenv(name); v != "" {
		if i, err := strconv.Atoi(v); err == nil {
			return i
		}
	}
	return def
}
