package main

func init() {
	reg(&PropSpec{ID: "C03",
		Harnesses: []HarnessSpec{
			{Name: "VH_C03_validate", Replay: "native"},
			{Name: "VH_C03_validate_full", Replay: "native", Thorough: true},
		},
		Bounds: map[string]string{
			"quick":    "0..2 assertions; per assertion/response one optional element absent at a time; all strings (SMT String) and instants (64-bit ns) symbolic; one SP-clock reading per Now() call",
			"thorough": "0..3 assertions; full cross product of absent optional elements",
		},
		Outside: []string{"that encoding/xml populates the struct from the document (C08)", "order between two timestamps that both lie outside the int64-nanosecond range (years 1678..2262); such timestamps are compared with the clock through saturated instants"},
	})
	reg(&PropSpec{ID: "C05",
		Harnesses: []HarnessSpec{
			{Name: "VH_C05_conditions", Replay: "native"},
			{Name: "VH_C05_expiry", Replay: "native"},
		},
		Bounds:  map[string]string{"quick": "Conditions present/absent, both bounds arbitrary strings; 1..3 assertions for the hard expiry; instants 64-bit ns", "thorough": "same"},
		Outside: []string{"the RFC 3339 parser itself (time.Parse) is represented by uninterpreted functions ok(s), P(s), z(s), far(s) of the attribute string", "order between two timestamps that both lie outside the int64-nanosecond range"},
	})
	reg(&PropSpec{ID: "C06",
		Harnesses: []HarnessSpec{
			{Name: "VH_C06_conditions", Replay: "native", QuickOnly: true},
			{Name: "VH_C06_conditions_deep", Replay: "native", Thorough: true},
		},
		Bounds: map[string]string{"quick": "0..2 AudienceRestrictions x 0..2 Audiences, proxy audiences 0..2, Count any int", "thorough": "0..3 x 0..3, proxy audiences 0..3"},
	})
	reg(&PropSpec{ID: "C10",
		Harnesses: []HarnessSpec{
			{Name: "VH_C10_logout_request", Replay: "native"},
			{Name: "VH_C10_logout_response", Replay: "native"},
		},
		Bounds: map[string]string{"quick": "every optional element present/absent; all strings symbolic", "thorough": "same"},
	})
	reg(&PropSpec{ID: "C12",
		Harnesses: []HarnessSpec{
			{Name: "VH_C12_maybeDeflate", Replay: "native"},
		},
		Bounds:  map[string]string{"quick": "limit any int64 >= 0; inflated size 0..64 MiB; compressed length arbitrary; decoder an arbitrary predicate of the bytes; optionally another message (any outcome) handled just before in the same process", "thorough": "same"},
		Outside: []string{"allocator behaviour: the claim is on bytes requested from the inflater", "negative MaximumDecompressedBodySize (not a size)"},
	})
	reg(&PropSpec{ID: "C18",
		Harnesses: []HarnessSpec{
			{Name: "VH_C18_string", Replay: "native", Unwind: 400, MaxPaths: 400000},
			{Name: "VH_C18_uuid", Replay: "native", Unwind: 400000, StepCap: 400_000_000},
		},
		Bounds:  map[string]string{"quick": "300 consecutive NewV4 calls in one process; every byte of the crypto/rand stream symbolic; short reads of rand.Reader allowed by the io.Reader contract; String() for every 16-byte pattern; two messages built before the first is serialised", "thorough": "same"},
		Outside: []string{"'never repeats / unpredictable' is a probabilistic statement about the OS generator: reduced to source identity (every free bit is a distinct crypto/rand stream bit) and injectivity of the rendering", "goroutine interleavings of NewV4 (C17)"},
	})
	reg(&PropSpec{ID: "C19",
		Harnesses: []HarnessSpec{
			{Name: "VH_C19_keys", Replay: "native"},
			{Name: "VH_C19_fields", Replay: "native"},
		},
		Bounds:  map[string]string{"quick": "all 16 combinations of {SPKeyStore, SPSigningKeyStore, SetSPKeyStore, SetSPSigningKeyStore} x field key store kind; certificates arbitrary (possibly empty) byte strings; validity hours any int64 <= 2562047; clock 1970..2100", "thorough": "same"},
		Outside: []string{"encoding/xml.Marshal of the descriptor (XML round trip)", "validityHours large enough to overflow int64 nanoseconds"},
	})
	reg(&PropSpec{ID: "C13",
		Harnesses: []HarnessSpec{
			{Name: "VH_C13_signing_key", Replay: "native"},
		},
		Bounds:  map[string]string{"quick": "all 16 key configurations x any algorithm string", "thorough": "same"},
		Outside: []string{"that the signature verifies after serialisation (canonicalisation, digest, RSA): dependency"},
	})
	reg(&PropSpec{ID: "C09",
		Harnesses: []HarnessSpec{
			{Name: "VH_C09_decrypt_bytes", Replay: "native", Panics: true, Unwind: 80, QuickOnly: true},
			{Name: "VH_C09_decrypt_bytes_deep", Replay: "native", Panics: true, Unwind: 80, Thorough: true},
			{Name: "VH_C09_decrypt_symkey", Replay: "native", Panics: true},
		},
		Bounds:  map[string]string{"quick": "ciphertext 0..64 bytes with arbitrary post-decryption content; any algorithm / digest identifiers; inline or detached EncryptedKey; SP certificate list empty or not; RSA or non-RSA private key", "thorough": "same"},
		Outside: []string{"panics inside etree / encoding/xml / flate / goxmldsig on arbitrary bytes (dependency code)"},
	})
	reg(&PropSpec{ID: "C11",
		Harnesses: []HarnessSpec{
			{Name: "VH_C11_roundtrip", Replay: "native", Panics: true, Unwind: 80},
			{Name: "VH_C19_keys", Replay: "native"},
		},
		Bounds:  map[string]string{"quick": "every advertised algorithm x {RSA-OAEP-MGF1P, RSA-OAEP 1.1, RSA-1_5} x {no digest, empty, SHA1, SHA256, SHA512} x inline/detached x recipient certificate present/absent; CBC plaintext 0..47 bytes, padding 1..16 bytes with arbitrary filler; all 16 key configurations for the key source", "thorough": "same"},
		Outside: []string{"AES / RSA / OAEP computations themselves (functional contracts only)", "orchestration twin (encrypted vs plaintext Response): see C07 when built"},
	})
	reg(&PropSpec{ID: "C15",
		Harnesses: []HarnessSpec{
			{Name: "VH_C15_authn_request", Replay: "native", Unwind: 2000},
			{Name: "VH_C15_logout_request", Replay: "native", Unwind: 2000},
			{Name: "VH_C15_logout_response", Replay: "native", Unwind: 2000},
		},
		Bounds:  map[string]string{"quick": "all configuration strings symbolic; 0..2 requested authentication contexts; flags on/off; the real etree construction code is executed", "thorough": "same"},
		Outside: []string{"escaping on serialisation and re-parsing (etree WriteTo / encoding/xml): the tree is inspected in memory", "signed variants: C13"},
	})
	sso := []HarnessSpec{
		{Name: "VH_C01_sso", Replay: "native", Unwind: 400, QuickOnly: true},
		{Name: "VH_C01_sso_wire", Replay: "native", Unwind: 400, QuickOnly: true},
		{Name: "VH_C01_sso_full", Replay: "native", Unwind: 400, Thorough: true},
		{Name: "VH_C01_sso_deep", Replay: "native", Unwind: 400, Thorough: true, MaxPaths: 3000000},
	}
	ssoBounds := map[string]string{
		"quick":    "Response root with signature none/valid/invalid (signature directly under the root or nested in an extension element); 0..2 children (raw presentation; 0..1 child for raw vs DEFLATE) each one of {assertion (sig none/valid/invalid), EncryptedAssertion of such an assertion, EncryptedAssertion of a non-assertion / unparsable plaintext, wrapper element hiding a genuine signed assertion (plain or encrypted), assertion with a genuine signed assertion nested inside, unrelated element}; raw or DEFLATE presentation; every leaf string symbolic; rtvalidator and certificate-trust outcomes nondeterministic",
		"thorough": "0..2 children with raw and DEFLATE presentation, and 0..3 children with raw presentation",
	}
	ssoOutside := []string{"the XML-level part of wrapping / ID-collision / comment / namespace / encoding attacks lives in goxmldsig, etree, encoding/xml and xml-roundtrip-validator and is represented only by the dsig.Validate contract (DESIGN section 2)", "RSA/ECDSA verification and canonicalisation themselves"}
	for _, id := range []string{"C01", "C02", "C04", "C07"} {
		reg(&PropSpec{ID: id, Harnesses: sso, Bounds: ssoBounds, Outside: ssoOutside})
	}
	ssoNoDeep := []HarnessSpec{}
	for _, h := range sso {
		if h.Name != "VH_C01_sso_deep" {
			ssoNoDeep = append(ssoNoDeep, h)
		}
	}
	for _, id := range []string{"C03", "C09", "C11"} {
		props[id].Harnesses = append(props[id].Harnesses, ssoNoDeep...)
	}
	props["C07"].Harnesses = append(props["C07"].Harnesses,
		HarnessSpec{Name: "VH_C07_decrypt_cert", Replay: "native"},
		HarnessSpec{Name: "VH_C07_recipient", Replay: "native", Panics: true})
	props["C13"].Harnesses = append(props["C13"].Harnesses,
		HarnessSpec{Name: "VH_C13_signed_documents", Replay: "native", Unwind: 2000},
		HarnessSpec{Name: "VH_C13_sign_is_pure", Replay: "native", Unwind: 2000})
	props["C15"].Harnesses = append(props["C15"].Harnesses, HarnessSpec{Name: "VH_C13_sign_is_pure", Replay: "native", Unwind: 2000})
	reg(&PropSpec{ID: "C17",
		Harnesses: []HarnessSpec{
			{Name: "VH_C17_signing_context_race", Replay: "race", Unwind: 2000, QuickOnly: true},
			{Name: "VH_C17_signing_context_race_deep", Replay: "race", Unwind: 2000, Thorough: true},
			{Name: "VH_C17_isolation", Replay: "native", Unwind: 2000},
			{Name: "VH_C17_no_shared_writes", Replay: "native", Unwind: 2000},
			{Name: "VH_C17_validation_pure", Replay: "native", Unwind: 400},
			{Name: "VH_C07_decrypt_cert", Replay: "native"},
			{Name: "VH_C13_sign_is_pure", Replay: "native", Unwind: 2000},
			{Name: "VH_C16_auth_body_post", Replay: "native", Unwind: 2000},
		},
		Bounds:  map[string]string{"quick": "2 goroutines x one SigningContext() call each on a fresh SP (all slow/fast variant assignments and read-from choices); isolation: two consecutive Metadata / validation / signing / POST-form / URL calls with the first result scribbled over or the first document kept; pooled memory: one validation of a compressed message, reads through views of buffers already handed back to a sync.Pool counted (replay: 4 goroutines x 60 rounds under the race detector)", "thorough": "3 goroutines"},
		Outside: []string{"thread-safety inside goxmldsig / clockwork / crypto; longer call histories per goroutine; the cert-byte accessors return views of configured slices by design"},
	})
	reg(&PropSpec{ID: "C20",
		Harnesses: []HarnessSpec{
			{Name: "VH_C20_predecode", Replay: "native", Unwind: 400},
			{Name: "VH_C20_predecode_logout", Replay: "native", Unwind: 400},
		},
		Bounds:  map[string]string{"quick": "Response / LogoutResponse root with signature none/valid/invalid (incl. nested position), optional assertion, optional Issuer / InResponseTo, optional foreign-namespace Issuer child, Issuer with a non-ASCII character; raw (leading white space / byte order mark), DEFLATE (incl. DEFLATE/XML polyglot streams), non-UTF-8 declared encoding, unpadded base64; configured decompression limit 0..128 MiB, inflated size 64 KiB..64 MiB", "thorough": "same"},
		Outside: []string{"byte-level agreement of the two XML parsers on arbitrary layouts (duplicate / prefixed attributes reordered by canonicalisation, repeated Issuer elements)"},
	})
	reg(&PropSpec{ID: "C16",
		Harnesses: []HarnessSpec{
			{Name: "VH_C16_auth_post", Replay: "native", Unwind: 400},
			{Name: "VH_C16_logout_post", Replay: "native", Unwind: 400},
			{Name: "VH_C16_logout_response_post", Replay: "native", Unwind: 400},
			{Name: "VH_C16_auth_body_post", Replay: "native", Unwind: 2000},
		},
		Bounds:  map[string]string{"quick": "arbitrary relay state / endpoint / document strings (documents with or without their own Destination / Signature child); relay present or empty; signing on/off; two or three consecutive renderings (other document, same document again)", "thorough": "same"},
		Outside: []string{"correctness of html/template's contextual escaper (its documented contract is the model): values are checked to be bound through an escaping action inside a double-quoted attribute of the constant template"},
	})
	reg(&PropSpec{ID: "C14",
		Harnesses: []HarnessSpec{
			{Name: "VH_C14_auth_url", Replay: "native", Unwind: 400},
			{Name: "VH_C14_logout_url", Replay: "native", Unwind: 400},
		},
		Bounds:  map[string]string{"quick": "IdP endpoint with 0..1 pre-existing query parameter; relay state any string over [A-Za-z0-9._~-] plus space & = + %; signing on/off; POST vs redirect flavour; document an arbitrary tree (with or without Destination / enveloped Signature child); optionally another URL built by the same SP just before; all 16 key configurations for the signing key", "thorough": "same"},
		Outside: []string{"DEFLATE and base64 encoders themselves (inverse-pair contracts)", "relay states outside the stated alphabet (QueryEscape is defined by replacement only on it)", "AuthRedirect (net/http)"},
	})
	genuine := []HarnessSpec{
		{Name: "VH_C08_genuine", Replay: "native", Unwind: 400, QuickOnly: true},
		{Name: "VH_C08_genuine_deep", Replay: "native", Unwind: 400, Thorough: true, MaxPaths: 3000000},
	}
	retrieve := []HarnessSpec{
		{Name: "VH_C08_retrieve", Replay: "native", Unwind: 400, Panics: true, QuickOnly: true},
		{Name: "VH_C08_retrieve_deep", Replay: "native", Unwind: 400, Panics: true, Thorough: true},
	}
	reg(&PropSpec{ID: "C08", Harnesses: append(append(append([]HarnessSpec{{Name: "VH_C08_values", Replay: "native", Panics: true}}, genuine...), retrieve...), ssoNoDeep...),
		Bounds:  map[string]string{"quick": "RetrieveAssertionInfo / ValidateEncodedResponse over the SSO scenario space (0..2 children), one attribute with one value per assertion; accessor helpers on the resulting map with symbolic names", "thorough": "0..3 children"},
		Outside: []string{"invariance under serialisation beyond the modelled layouts (comment-split text, CDATA sections, inherited namespace prefixes, leading white space / byte order mark, raw / DEFLATE, encrypted or not): character references, attribute order, canonicalisation variants, digest / signature algorithm support are etree / encoding/xml / goxmldsig behaviour and are NOT decided here", "an empty CDATA section (rejected by xml-roundtrip-validator v0.1.0, a dependency quirk)"}})
	for _, id := range []string{"C01", "C03", "C04", "C05", "C06", "C09"} {
		props[id].Harnesses = append(props[id].Harnesses, retrieve...)
	}
	for _, id := range []string{"C01", "C06", "C08"} {
		props[id].Harnesses = append(props[id].Harnesses, HarnessSpec{Name: "VH_C01_summary_first", Replay: "native", Unwind: 400})
	}
	props["C12"].Harnesses = append(props["C12"].Harnesses, HarnessSpec{Name: "VH_C12_routing", Replay: "native", Unwind: 400})
	props["C09"].Harnesses = append(props["C09"].Harnesses, HarnessSpec{Name: "VH_C09_bare_config", Replay: "native", Unwind: 400, Panics: true},
		HarnessSpec{Name: "VH_C03_validate", Replay: "native", Panics: true},
		HarnessSpec{Name: "VH_C05_conditions", Replay: "native", Panics: true},
		HarnessSpec{Name: "VH_C06_conditions", Replay: "native", Panics: true},
		HarnessSpec{Name: "VH_C10_logout_request", Replay: "native", Panics: true},
		HarnessSpec{Name: "VH_C10_logout_response", Replay: "native", Panics: true})
	props["C18"].Harnesses = append(props["C18"].Harnesses,
		HarnessSpec{Name: "VH_C15_authn_request", Replay: "native", Unwind: 2000},
		HarnessSpec{Name: "VH_C15_logout_request", Replay: "native", Unwind: 2000},
		HarnessSpec{Name: "VH_C15_logout_response", Replay: "native", Unwind: 2000})
	for _, id := range []string{"C09", "C01", "C10"} {
		props[id].Harnesses = append(props[id].Harnesses, HarnessSpec{Name: "VH_C09_root_kinds", Replay: "native", Unwind: 400, Panics: id == "C09"})
	}
	// lemma L2: the real goxmldsig verifyCertificate code (dependency half of C02), symbolic only
	props["C02"].Harnesses = append(props["C02"].Harnesses, HarnessSpec{Name: "VL_L2_verify_certificate", Replay: "", Unwind: 400})
	props["C02"].Harnesses = append(props["C02"].Harnesses, HarnessSpec{Name: "VH_C02_cert_window", Replay: "native", Unwind: 400})
	rollover := HarnessSpec{Name: "VH_C02_store_rollover", Replay: "native", Unwind: 400}
	logout := HarnessSpec{Name: "VH_C10_logout_post", Replay: "native", Unwind: 400}
	for _, id := range []string{"C01", "C02", "C10"} {
		props[id].Harnesses = append(props[id].Harnesses, rollover)
	}
	for _, id := range []string{"C02", "C04", "C09", "C10"} {
		props[id].Harnesses = append(props[id].Harnesses, logout)
	}
	for _, id := range []string{"C01", "C02"} {
		props[id].Harnesses = append(props[id].Harnesses, HarnessSpec{Name: "VH_C01_no_store", Replay: "native", Unwind: 400})
	}
	props["C08"].Harnesses = append(props["C08"].Harnesses, HarnessSpec{Name: "VH_C11_roundtrip", Replay: "native", Panics: true, Unwind: 80})
	props["C14"].Harnesses = append(props["C14"].Harnesses, HarnessSpec{Name: "VH_C13_signing_key", Replay: "native"})
	for _, id := range []string{"C17", "C18"} {
		props[id].Harnesses = append(props[id].Harnesses, HarnessSpec{Name: "VH_C18_two_documents", Replay: "native", Unwind: 2000})
	}
	for _, id := range []string{"C08", "C11"} {
		props[id].Harnesses = append(props[id].Harnesses, HarnessSpec{Name: "VH_C11_encrypted_layouts", Replay: "native", Unwind: 400})
	}
	props["C19"].Harnesses = append(props["C19"].Harnesses, HarnessSpec{Name: "VH_C17_isolation", Replay: "native", Unwind: 2000})
	props["C04"].Harnesses = append(props["C04"].Harnesses, HarnessSpec{Name: "VH_C01_no_store", Replay: "native", Unwind: 400})
	props["C15"].Harnesses = append(props["C15"].Harnesses, HarnessSpec{Name: "VH_C17_no_shared_writes", Replay: "native", Unwind: 2000})
	props["C17"].Harnesses = append(props["C17"].Harnesses, HarnessSpec{Name: "VH_C14_auth_url", Replay: "native", Unwind: 400})
	for _, id := range []string{"C16", "C17", "C18"} {
		props[id].Harnesses = append(props[id].Harnesses, HarnessSpec{Name: "VH_C16_from_document_twice", Replay: "native", Unwind: 2000})
	}
	for _, id := range []string{"C07", "C11", "C17"} {
		props[id].Harnesses = append(props[id].Harnesses, HarnessSpec{Name: "VH_C11_rekey", Replay: "native"})
	}
	props["C17"].Harnesses = append(props["C17"].Harnesses, HarnessSpec{Name: "VH_C17_pooled_memory", Replay: "race", Unwind: 400})
	props["C15"].Harnesses = append(props["C15"].Harnesses, HarnessSpec{Name: "VH_C18_two_documents", Replay: "native", Unwind: 2000})
	for _, id := range []string{"C13", "C19"} {
		props[id].Harnesses = append(props[id].Harnesses, HarnessSpec{Name: "VH_C11_rekey", Replay: "native"})
	}
	for _, id := range []string{"C01", "C04", "C08", "C17"} {
		props[id].Harnesses = append(props[id].Harnesses, HarnessSpec{Name: "VH_C01_results_isolated", Replay: "native", Unwind: 400})
	}
	props["C02"].Harnesses = append(props["C02"].Harnesses, HarnessSpec{Name: "VH_C17_pooled_memory", Replay: "race", Unwind: 400})
	for _, id := range []string{"C13", "C14"} {
		// the shared signing context every outgoing signature is made with
		props[id].Harnesses = append(props[id].Harnesses, HarnessSpec{Name: "VH_C17_signing_context_race", Replay: "race", Unwind: 2000})
	}
	trust := HarnessSpec{Name: "VH_C02_trust_store", Replay: "native", Unwind: 400}
	for _, id := range []string{"C01", "C02", "C04", "C10"} {
		props[id].Harnesses = append(props[id].Harnesses, trust)
	}
}
