package main

func init() {
	reg(&PropSpec{ID: "C03",
		Harnesses: []HarnessSpec{{Name: "VH_C03_validate", Replay: "native"}},
		Bounds:    map[string]string{"quick": "0..2 assertions, every optional element present/absent, all strings and instants symbolic", "thorough": "same"},
	})
}
