package main

import (
	"bytes"
	"encoding/json"
	"fmt"
	"os"
	"os/exec"
	"path/filepath"
	"regexp"
	"sort"
	"strings"
	"sync"
	"time"

	"verif/engine/sx"
)

var replayProp string

// replaySiblings: assertion ids the symbolic run of the current harness found violable (kept for the evidence
// notes). A native failure of a different assertion of the same property counts as reproduction: every assertion
// the native twin evaluates is exact there (facts only the model observes go through vAssertModel, which the
// native twin does not evaluate), and the concrete run often trips over an earlier statement of the same fact.
var replaySiblings map[string]bool

var (
	replayOnce sync.Once
	replayBin  string
	replayErr  error
	replayDir  string

	raceOnce sync.Once
	raceBin  string
	raceErr  error
)

var reHarness = regexp.MustCompile(`(?m)^func (VH_[A-Za-z0-9_]+)\(\)`)

// buildReplayBinary compiles /repo's current tree + harnesses + native API into a test binary.
func buildReplayBinary() (string, error) {
	replayOnce.Do(func() {
		dir, err := os.MkdirTemp("", "vxreplay")
		if err != nil {
			replayErr = err
			return
		}
		replayDir = dir
		replace := map[string]string{}
		var names []string
		for _, sub := range []string{"h", "native"} {
			files, _ := filepath.Glob(filepath.Join(verifDir, "harness", sub, "*.go"))
			for _, f := range files {
				replace[filepath.Join(repoDir, filepath.Base(f))] = f
				if sub == "h" {
					b, _ := os.ReadFile(f)
					for _, m := range reHarness.FindAllSubmatch(b, -1) {
						names = append(names, string(m[1]))
					}
				}
			}
		}
		for _, f := range extraHarnessFiles {
			replace[filepath.Join(repoDir, filepath.Base(f))] = f
			b, _ := os.ReadFile(f)
			for _, m := range reHarness.FindAllSubmatch(b, -1) {
				names = append(names, string(m[1]))
			}
		}
		sort.Strings(names)
		var reg bytes.Buffer
		reg.WriteString("//go:build verif\n\npackage saml2\n\nvar vxHarnesses = map[string]func(){\n")
		for _, n := range names {
			fmt.Fprintf(&reg, "\t%q: %s,\n", n, n)
		}
		reg.WriteString("}\n")
		regPath := filepath.Join(dir, "zz_vh_registry.go")
		os.WriteFile(regPath, reg.Bytes(), 0o644)
		replace[filepath.Join(repoDir, "zz_vh_registry.go")] = regPath
		ov, _ := json.Marshal(map[string]interface{}{"Replace": replace})
		ovPath := filepath.Join(dir, "overlay.json")
		os.WriteFile(ovPath, ov, 0o644)
		bin := filepath.Join(dir, "replay.test")
		cmd := exec.Command("go", "test", "-c", "-tags", "verif", "-vet=off", "-overlay", ovPath, "-o", bin, ".")
		cmd.Dir = repoDir
		cmd.Env = append(os.Environ(), "GOFLAGS=-mod=mod", "GOPROXY=off", "GOSUMDB=off", "GOTOOLCHAIN=local")
		out, err := cmd.CombinedOutput()
		if err != nil {
			replayErr = fmt.Errorf("building replay binary: %v\n%s", err, out)
			return
		}
		replayBin = bin
	})
	return replayBin, replayErr
}

// buildRaceBinary: the same test binary built with the race detector.
func buildRaceBinary() (string, error) {
	if _, err := buildReplayBinary(); err != nil {
		return "", err
	}
	raceOnce.Do(func() {
		bin := filepath.Join(replayDir, "replay-race.test")
		cmd := exec.Command("go", "test", "-c", "-race", "-tags", "verif", "-vet=off", "-overlay", filepath.Join(replayDir, "overlay.json"), "-o", bin, ".")
		cmd.Dir = repoDir
		cmd.Env = append(os.Environ(), "GOFLAGS=-mod=mod", "GOPROXY=off", "GOSUMDB=off", "GOTOOLCHAIN=local", "CGO_ENABLED=1")
		out, err := cmd.CombinedOutput()
		if err != nil {
			raceErr = fmt.Errorf("building race replay binary: %v\n%s", err, out)
			return
		}
		raceBin = bin
	})
	return raceBin, raceErr
}

// replayRace runs the harness natively under the race detector; reproduced iff a data race is reported.
func replayRace(harness string, inputs map[string]interface{}) (bool, string) {
	bin, err := buildRaceBinary()
	if err != nil {
		return false, err.Error()
	}
	jobs := []map[string]interface{}{{"id": "j", "harness": harness, "inputs": inputs}}
	jb, _ := json.Marshal(jobs)
	jf, err := os.CreateTemp(replayDir, "job*.json")
	if err != nil {
		return false, err.Error()
	}
	jf.Write(jb)
	jf.Close()
	defer os.Remove(jf.Name())
	cmd := exec.Command(bin, "-test.run", "^TestVXReplay$", "-test.count=1", "-test.timeout=300s")
	cmd.Dir = repoDir
	cmd.Env = append(os.Environ(), "VX_REPLAY_FILE="+jf.Name(), "GORACE=halt_on_error=0")
	out, _ := cmd.CombinedOutput()
	if strings.Contains(string(out), "WARNING: DATA RACE") {
		i := strings.Index(string(out), "WARNING: DATA RACE")
		s := string(out)[i:]
		if len(s) > 600 {
			s = s[:600]
		}
		return true, s
	}
	return false, "no data race reported by the race detector"
}

func cleanupReplay() {
	if replayDir != "" {
		os.RemoveAll(replayDir)
	}
}

type replayResult struct {
	ID        string   `json:"id"`
	Failed    []string `json:"failed"`
	Reached   []string `json:"reached"`
	AssumeBad []string `json:"assume_bad"`
	Panic     string   `json:"panic"`
	Unknown   bool     `json:"unknown_harness"`
	Notes     []string `json:"notes"`
}

func runReplay(harness string, inputs map[string]interface{}) (*replayResult, string) {
	bin, err := buildReplayBinary()
	if err != nil {
		return nil, err.Error()
	}
	jobs := []map[string]interface{}{{"id": "j", "harness": harness, "inputs": inputs}}
	jb, _ := json.Marshal(jobs)
	jf, err := os.CreateTemp(replayDir, "job*.json")
	if err != nil {
		return nil, err.Error()
	}
	jf.Write(jb)
	jf.Close()
	defer os.Remove(jf.Name())
	cmd := exec.Command(bin, "-test.run", "^TestVXReplay$", "-test.count=1", "-test.timeout=120s")
	cmd.Dir = repoDir
	cmd.Env = append(os.Environ(), "VX_REPLAY_FILE="+jf.Name())
	done := make(chan struct{})
	var out []byte
	go func() {
		out, err = cmd.CombinedOutput()
		close(done)
	}()
	select {
	case <-done:
	case <-time.After(150 * time.Second):
		if cmd.Process != nil {
			cmd.Process.Kill()
		}
		return nil, "replay timed out"
	}
	for _, l := range strings.Split(string(out), "\n") {
		if strings.HasPrefix(l, "VXRESULT ") {
			var r replayResult
			if e := json.Unmarshal([]byte(l[9:]), &r); e == nil {
				return &r, ""
			}
		}
	}
	s := string(out)
	if i := strings.Index(s, "fatal error: "); i >= 0 {
		// the Go runtime killed the process (out of memory, stack overflow, ...): no result and no error was
		// ever returned to the caller — reported like a panic
		return &replayResult{ID: "j", Panic: firstLine(s[i:])}, ""
	}
	if len(s) > 600 {
		s = s[:600]
	}
	return nil, "no result from replay run: " + s
}

// replayNative re-runs the harness natively on the concrete inputs. target is an assertion id
// ("panic-free" for panic obligations) or "reach:<label>". Returns whether the outcome reproduced.
func replayNative(harness, target string, inputs map[string]interface{}, f *sx.Failure) (bool, string) {
	r, note := runReplay(harness, inputs)
	if r == nil {
		return false, note
	}
	if r.Unknown {
		return false, "harness not in native registry"
	}
	if len(r.AssumeBad) > 0 {
		return false, "an assumption does not hold on the concrete inputs: " + strings.Join(r.AssumeBad, ",")
	}
	if strings.HasPrefix(target, "reach:") {
		l := target[6:]
		for _, x := range r.Reached {
			if x == l {
				return true, ""
			}
		}
		return false, fmt.Sprintf("label not reached natively (reached %v, failed %v, panic %q, notes %v)", r.Reached, r.Failed, firstLine(r.Panic), r.Notes)
	}
	if target == "panic-free" {
		if r.Panic != "" {
			return true, firstLine(r.Panic)
		}
		return false, "no panic on the real build"
	}
	for _, x := range r.Failed {
		if x == target {
			return true, ""
		}
	}
	// the concrete run may trip over a sibling assertion of the same property first (e.g. an earlier check of
	// the same fact): that still is a reproduced violation of the property
	if replayProp != "" {
		for _, x := range r.Failed {
			if assertionBelongsTo(x, replayProp) {
				return true, "reproduced as " + x
			}
		}
	}
	return false, fmt.Sprintf("assertion held natively (failed %v, reached %v, panic %q, notes %v)", r.Failed, r.Reached, firstLine(r.Panic), r.Notes)
}

func firstLine(s string) string {
	if i := strings.IndexByte(s, '\n'); i >= 0 {
		return s[:i]
	}
	return s
}
