module verif/engine

go 1.23

require (
	github.com/beevik/etree v1.5.0
	golang.org/x/tools v0.29.0
)

require (
	golang.org/x/mod v0.22.0 // indirect
	golang.org/x/sync v0.10.0 // indirect
)
