package sx

import (
	"fmt"
	"go/types"
	"strconv"
	"strings"

	"verif/engine/smt"

	"golang.org/x/tools/go/ssa"
)

// vDump(label, ok, v): canonical rendering of a decoded value (exported fields only), used by the xmlm
// differential against the real encoding/xml decoder. The native twin renders with reflection.

func (in *Interp) dumpValue(v Value, t types.Type, b *strings.Builder, depth int) {
	if depth > 40 {
		b.WriteString("...")
		return
	}
	if isTimeType(t) {
		b.WriteString("T")
		return
	}
	switch u := t.Underlying().(type) {
	case *types.Basic:
		tm, ok := v.(*smt.Term)
		if !ok {
			b.WriteString("?")
			return
		}
		switch {
		case u.Info()&types.IsString != 0:
			if tm.Const {
				b.WriteString(strconv.Quote(tm.Str))
			} else {
				b.WriteString("?" + tm.S)
			}
		case u.Info()&types.IsBoolean != 0:
			if tm.Const {
				fmt.Fprintf(b, "%v", tm.B)
			} else {
				b.WriteString("?" + tm.S)
			}
		case u.Info()&types.IsInteger != 0:
			if tm.Const {
				fmt.Fprintf(b, "%d", tm.SInt())
			} else {
				b.WriteString("?int")
			}
		default:
			b.WriteString("?")
		}
	case *types.Pointer:
		p, _ := v.(*Ptr)
		if p == nil {
			b.WriteString("nil")
			return
		}
		b.WriteString("&")
		in.dumpValue(in.load(p), u.Elem(), b, depth+1)
	case *types.Struct:
		sv, ok := v.(*StructV)
		if !ok {
			b.WriteString("?struct")
			return
		}
		b.WriteString("{")
		for i := 0; i < u.NumFields(); i++ {
			f := u.Field(i)
			if !f.Exported() || f.Name() == "XMLName" {
				continue
			}
			b.WriteString(f.Name() + ":")
			in.dumpValue(sv.F[i], f.Type(), b, depth+1)
			b.WriteString(";")
		}
		b.WriteString("}")
	case *types.Slice:
		if eb := basicOf(u.Elem()); eb != nil && eb.Kind() == types.Uint8 {
			b.WriteString("B")
			return
		}
		es := in.sliceElems(v)
		b.WriteString("[")
		for i, e := range es {
			if i > 0 {
				b.WriteString(",")
			}
			in.dumpValue(e, u.Elem(), b, depth+1)
		}
		b.WriteString("]")
	default:
		b.WriteString("I")
	}
}

func init() {
	intrinsics["vDump"] = func(in *Interp, fn *ssa.Function, a []Value) Value {
		label := constStr(in, a[0], "vDump label")
		ok := termArg(in, a[1])
		ifc, _ := a[2].(*Iface)
		var b strings.Builder
		if ok.Const {
			fmt.Fprintf(&b, "ok=%v ", ok.B)
		} else {
			b.WriteString("ok=? ")
		}
		if ifc != nil && ifc.T != nil {
			in.dumpValue(ifc.V, ifc.T, &b, 0)
		}
		in.X.mu.Lock()
		if in.X.Dumps == nil {
			in.X.Dumps = map[string]string{}
		}
		in.X.Dumps[label] = b.String()
		in.X.mu.Unlock()
		return nil
	}
}
