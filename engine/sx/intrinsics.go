package sx

import (
	"fmt"

	"verif/engine/smt"

	"golang.org/x/tools/go/ssa"
)

type modelFn func(in *Interp, fn *ssa.Function, args []Value) Value

var (
	models        = map[string]modelFn{}
	intrinsics    = map[string]modelFn{}
	interpretPkgs = map[string]bool{
		"github.com/beevik/etree":                        true,
		"github.com/russellhaering/goxmldsig/etreeutils": true,
		"errors": true,
		"slices": true,
		"github.com/russellhaering/goxmldsig/types": true,
		"github.com/russellhaering/goxmldsig":       true,
	}
	interpretFuncs = map[string]bool{}
	pkgInitHooks   = map[string]func(in *Interp, pkg *ssa.Package){}
)

func constStr(in *Interp, v Value, what string) string {
	t, ok := v.(*smt.Term)
	if !ok || !t.Const || t.K != smt.KStr {
		in.end("internal", "%s must be a constant string", what)
	}
	return t.Str
}

func (in *Interp) addInput(name, kind string, t *smt.Term) *InputRec {
	ir := &InputRec{Name: name, Kind: kind, Term: t, Extra: map[string]*smt.Term{}}
	in.Inputs = append(in.Inputs, ir)
	in.inputIdx[name] = ir
	return ir
}

func init() {
	intrinsics["vBool"] = func(in *Interp, fn *ssa.Function, a []Value) Value {
		name := in.fresh(constStr(in, a[0], "vBool name"))
		t := smt.NewVar(symName(name), smt.KBool, 0)
		in.addInput(name, "bool", t)
		return t
	}
	intrinsics["vI64"] = func(in *Interp, fn *ssa.Function, a []Value) Value {
		name := in.fresh(constStr(in, a[0], "vI64 name"))
		t := smt.NewVar(symName(name), smt.KBV, 64)
		in.addInput(name, "i64", t)
		return t
	}
	intrinsics["vByte"] = func(in *Interp, fn *ssa.Function, a []Value) Value {
		name := in.fresh(constStr(in, a[0], "vByte name"))
		t := smt.NewVar(symName(name), smt.KBV, 8)
		in.addInput(name, "byte", t)
		return t
	}
	// vInt(name, lo, hi): symbolic int constrained to [lo,hi]
	intrinsics["vInt"] = func(in *Interp, fn *ssa.Function, a []Value) Value {
		name := in.fresh(constStr(in, a[0], "vInt name"))
		t := smt.NewVar(symName(name), smt.KBV, 64)
		in.addInput(name, "i64", t)
		lo, hi := a[1].(*smt.Term), a[2].(*smt.Term)
		in.Assume(smt.And(smt.BVSle(lo, t), smt.BVSle(t, hi)))
		return t
	}
	// vChoice(name, n): concrete fork into 0..n-1
	intrinsics["vChoice"] = func(in *Interp, fn *ssa.Function, a []Value) Value {
		name := in.fresh(constStr(in, a[0], "vChoice name"))
		n := in.concreteInt(a[1].(*smt.Term), "vChoice n")
		d := in.Choose(n)
		in.Ghost["choice:"+name] = d
		return smt.BV(uint64(d), 64)
	}
	// vFlag(name): concrete boolean fork (shape choices; no solver involved)
	intrinsics["vFlag"] = func(in *Interp, fn *ssa.Function, a []Value) Value {
		name := in.fresh(constStr(in, a[0], "vFlag name"))
		d := in.Choose(2)
		in.Ghost["choice:"+name] = d
		return smt.Bool(d == 1)
	}
	intrinsics["vString"] = func(in *Interp, fn *ssa.Function, a []Value) Value {
		name := in.fresh(constStr(in, a[0], "vString name"))
		t := smt.NewVar(symName(name), smt.KStr, 0)
		in.addInput(name, "string", t)
		return t
	}
	intrinsics["vIDString"] = intrinsics["vString"]
	intrinsics["vAssume"] = func(in *Interp, fn *ssa.Function, a []Value) Value {
		in.Assume(a[0].(*smt.Term))
		return nil
	}
	intrinsics["vAssert"] = func(in *Interp, fn *ssa.Function, a []Value) Value {
		id := constStr(in, a[0], "vAssert id")
		c := a[1].(*smt.Term)
		in.X.mu.Lock()
		in.X.AssertsProved[id] += 0
		in.X.mu.Unlock()
		if c.Const && c.B {
			in.X.mu.Lock()
			in.X.AssertsProved[id]++
			in.X.mu.Unlock()
			return nil
		}
		failed := in.reportFailure(id, "assert", "assertion "+id+" can fail", in.where(), []*smt.Term{smt.Not(c)})
		if !failed {
			in.X.mu.Lock()
			in.X.AssertsProved[id]++
			in.X.mu.Unlock()
		}
		// continue under the assumption that it holds (so one defect is not re-reported downstream);
		// a proved assertion is implied by the path condition and need not be added.
		if failed && !c.Const {
			in.Assume(c)
		}
		if !c.Const && failed && !in.Feasible() {
			in.end("infeasible", "assertion %s fails on every input of this path", id)
		}
		return nil
	}
	intrinsics["vAssertModel"] = intrinsics["vAssert"]
	intrinsics["vReach"] = func(in *Interp, fn *ssa.Function, a []Value) Value {
		label := constStr(in, a[0], "vReach label")
		c := a[1].(*smt.Term)
		in.X.mu.Lock()
		in.X.ReachWanted[label] = true
		have := len(in.X.ReachedAll[label]) >= 12
		in.X.mu.Unlock()
		if have || (c.Const && !c.B) {
			return nil
		}
		q := append(append([]*smt.Term{}, in.PC...), c)
		r, m, _ := in.Solver.Check(q, in.wantTerms())
		if r == smt.Sat {
			w := &Witness{Label: label, Inputs: in.decodeModel(m), Events: append([]string{}, in.Events...), Decisions: append([]int{}, in.Decisions...)}
			in.X.mu.Lock()
			if _, have := in.X.Reached[label]; !have {
				in.X.Reached[label] = w
			}
			if len(in.X.ReachedAll[label]) < 12 {
				in.X.ReachedAll[label] = append(in.X.ReachedAll[label], w)
			}
			in.X.mu.Unlock()
		}
		return nil
	}
	// non-branching connectives
	intrinsics["vAnd"] = func(in *Interp, fn *ssa.Function, a []Value) Value {
		return smt.And(a[0].(*smt.Term), a[1].(*smt.Term))
	}
	intrinsics["vOr"] = func(in *Interp, fn *ssa.Function, a []Value) Value {
		return smt.Or(a[0].(*smt.Term), a[1].(*smt.Term))
	}
	intrinsics["vNot"] = func(in *Interp, fn *ssa.Function, a []Value) Value { return smt.Not(a[0].(*smt.Term)) }
	intrinsics["vImplies"] = func(in *Interp, fn *ssa.Function, a []Value) Value {
		return smt.Implies(a[0].(*smt.Term), a[1].(*smt.Term))
	}
	intrinsics["vIff"] = func(in *Interp, fn *ssa.Function, a []Value) Value {
		return smt.Eq(a[0].(*smt.Term), a[1].(*smt.Term))
	}
	intrinsics["vIteS"] = func(in *Interp, fn *ssa.Function, a []Value) Value {
		return smt.Ite(a[0].(*smt.Term), a[1].(*smt.Term), a[2].(*smt.Term))
	}
	intrinsics["vIteI"] = intrinsics["vIteS"]
	intrinsics["vIteB"] = intrinsics["vIteS"]
	// vMarshalRoundTrip: symbolic side: encoding/xml.Marshal is outside the encoding (always true, out untouched)
	intrinsics["vMarshalRoundTrip"] = func(in *Interp, fn *ssa.Function, a []Value) Value { return smt.True }
	intrinsics["vDebugErr"] = func(in *Interp, fn *ssa.Function, a []Value) Value { return nil }
	intrinsics["vNote"] = func(in *Interp, fn *ssa.Function, a []Value) Value {
		in.Notes = append(in.Notes, constStr(in, a[0], "vNote"))
		return nil
	}
	// vEvents() int: number of ghost events so far; vEventCount(prefix) counts events with that prefix
	intrinsics["vEventCount"] = func(in *Interp, fn *ssa.Function, a []Value) Value {
		p := constStr(in, a[0], "vEventCount prefix")
		n := 0
		for _, e := range in.Events {
			if len(e) >= len(p) && e[:len(p)] == p {
				n++
			}
		}
		return smt.BV(uint64(n), 64)
	}
	intrinsics["vPanicked"] = func(in *Interp, fn *ssa.Function, a []Value) Value {
		// vPanicked(f func()) bool : runs f, returns whether it panicked (harness-level recover)
		cl := a[0]
		panicked := false
		func() {
			defer func() {
				if r := recover(); r != nil {
					if gp, ok := r.(*GoPanic); ok {
						panicked = true
						in.Events = append(in.Events, "panic: "+gp.Msg+" at "+gp.At)
						return
					}
					panic(r)
				}
			}()
			in.CallValue(cl, nil)
		}()
		return smt.Bool(panicked)
	}
}

func (in *Interp) event(format string, a ...interface{}) {
	in.Events = append(in.Events, fmt.Sprintf(format, a...))
}
