package sx

import (
	"fmt"
	"go/types"

	"verif/engine/smt"

	"golang.org/x/tools/go/ssa"
)

// Model of goxmldsig's ValidationContext.Validate (DESIGN §2): the outcome for an element is given by the
// scenario attribute vx-sig ∈ {absent/none, valid, invalid} of that element ("the enveloped signature
// referencing this element, wherever it sits in the subtree"):
//   none    -> ErrMissingSignature
//   invalid -> some other error (foreign key, altered content, trusted certificate with foreign key ...)
//   valid   -> nondeterministically "certificate not in the store / outside its validity at ctx.Clock"
//              (error), otherwise a fresh copy of the element without its Signature child, marked
//              vx-verified (what the library re-parsed from the canonical signed bytes).
// The attacker axiom (vx-sig=valid only on genuine IdP-authored subtrees) is enforced by the scenario
// builders.

type validateCall struct {
	Store Value
	Clock Value
	Sig   string
}

// storeTrustsIdP: the certificate store object was created by vIDPStore (holds the IdP certificate);
// stores created by vEmptyStore hold nothing. Other stores: unknown (treated as trusting).
func storeTrustsIdP(v Value) bool {
	ifc, _ := v.(*Iface)
	if ifc == nil || ifc.T == nil {
		return false
	}
	p, _ := ifc.V.(*Ptr)
	if p == nil || p.Obj == nil || p.Obj.Ghost == nil {
		return true
	}
	t, ok := p.Obj.Ghost["trusts-idp"].(bool)
	return !ok || t
}

func (in *Interp) addAttr(p *Ptr, key string, val *smt.Term) {
	fn := in.etreeMethod(types.NewPointer(in.etreeType("Element")), "CreateAttr")
	in.callFunction(fn, []Value{p, smt.StrLit(key), val}, nil)
}

// dsigVerified: what a successful Validate returns — a fresh copy of the element without its enveloped Signature,
// marked vx-verified, as the root of a fresh document.
func (in *Interp) dsigVerified(el *Ptr) Value {
	if in.hasCData(el) {
		// goxmldsig canonicalises by serialising the tree it is given with etree's canonical write settings, which
		// emit a CDATA node literally; a conformant signer digested the escaped text, so the digests differ
		in.X.noteAssumption("goxmldsig canonicalisation writes CDATA nodes literally: a signed subtree handed over with CDATA nodes (ReadSettings.PreserveCData) does not verify")
		in.event("dsig: digest mismatch (CDATA node in the tree to canonicalise)")
		return Tuple{nilPtr, in.opaqueError("dsig-digest-cdata")}
	}
	out := in.elemCopy(el)
	// drop the enveloped Signature child (direct child named Signature) if the scenario carries one
	rm := in.etreeMethod(types.NewPointer(in.etreeType("Element")), "RemoveChildAt")
	oe := in.viewElem(out)
	removed := false
	for i, c := range oe.Children {
		if c.Kind != "elem" {
			continue
		}
		ce := in.viewElem(c.Elem)
		if ce.Tag.Const && ce.Tag.Str == "Signature" {
			in.callFunction(rm, []Value{out, smt.BV(uint64(i), 64)}, nil)
			removed = true
			break
		}
	}
	if !removed {
		// the enveloped signature may sit deeper (e.g. inside samlp:Extensions): the transform removes it there
		for _, c := range oe.Children {
			if c.Kind != "elem" || removed {
				continue
			}
			ce := in.viewElem(c.Elem)
			if _, holder := ce.attr("vx-sigholder"); !holder {
				continue
			}
			for j, cc := range ce.Children {
				if cc.Kind == "elem" {
					cce := in.viewElem(cc.Elem)
					if cce.Tag.Const && cce.Tag.Str == "Signature" {
						in.callFunction(rm, []Value{c.Elem, smt.BV(uint64(j), 64)}, nil)
						removed = true
						break
					}
				}
			}
		}
	}
	in.addAttr(out, "vx-verified", smt.StrLit("1"))
	// goxmldsig re-parses the canonical signed bytes and returns the root of that fresh document
	// (so the returned element has the document as its parent, not nil)
	nd := in.P.Pkgs[etreePkg].Func("NewDocument")
	doc := in.callFunction(nd, nil, nil).(*Ptr)
	setRoot := in.etreeMethod(types.NewPointer(in.etreeType("Document")), "SetRoot")
	in.callFunction(setRoot, []Value{doc, out}, nil)
	return Tuple{out, nilError()}
}

func init() {
	models["(*"+dsigPkg+".ValidationContext).Validate"] = func(in *Interp, fn *ssa.Function, a []Value) Value {
		ctxp, _ := a[0].(*Ptr)
		if ctxp == nil {
			in.goPanic("nil ValidationContext")
		}
		el, _ := a[1].(*Ptr)
		if el == nil {
			in.goPanic("dsig.Validate(nil element)")
		}
		if rel, _ := in.Ghost["poolreleased:"+ptrKey(ctxp)].(bool); rel {
			in.Ghost["pool.use-after-put"] = intGhost(in, "pool.use-after-put") + 1
			in.event("a validation context is used after it was handed back to a shared free list")
		}
		ct := derefType(fn.Signature.Recv().Type())
		cv := in.load(ctxp).(*StructV)
		call := &validateCall{Store: cv.F[fieldIndex(ct, "CertificateStore")], Clock: cv.F[fieldIndex(ct, "Clock")]}
		e := in.viewElem(el)
		sig := "none"
		if v, ok := e.attr("vx-sig"); ok && v.Const {
			sig = v.Str
		}
		call.Sig = sig
		calls, _ := in.Ghost["validate.calls"].([]*validateCall)
		in.Ghost["validate.calls"] = append(calls, call)
		name, _ := e.attr("vx-name")
		in.event("dsig.Validate %s:%s name=%v sig=%s", cstr(e.Space), cstr(e.Tag), name, sig)
		in.X.noteAssumption("goxmldsig ValidationContext.Validate: contract only (DESIGN §2) — succeeds only for an element whose own enveloped signature by a trusted, currently valid certificate covers its whole subtree, returns exactly those re-parsed bytes; ErrMissingSignature iff no signature references the element")
		// a certificate store is required (C09: configurations supply one)
		if st, _ := call.Store.(*Iface); st == nil || st.T == nil {
			if sig != "none" {
				in.goPanic("nil certificate store dereferenced by goxmldsig")
			}
		}
		if many, ok := e.attr("vx-many"); ok && many.Const && many.Str == "1" {
			// more than 1000 elements precede the signature: goxmldsig's bounded search gives up
			in.X.noteAssumption("goxmldsig's signature search visits at most 1000 elements and fails with etreeutils.ErrTraversalLimit beyond that (scenario attribute vx-many stands for such a message)")
			in.event("dsig: traversal limit reached before the signature")
			g := in.P.Pkgs[dsigPkg+"/etreeutils"].Var("ErrTraversalLimit")
			return Tuple{nilPtr, in.load(&Ptr{Obj: in.global(g)})}
		}
		if signer, ok := e.attr("vx-signer"); ok && signer.Const && sig == "valid" {
			return in.dsigValidateV2(call, el, e, signer.Str)
		}
		var certTime *smt.Term
		if sig != "none" {
			// goxmldsig reads ctx.Clock once (verifyCertificate) after it has found the signature
			if cp, _ := call.Clock.(*Ptr); cp != nil {
				if cn, _ := cp.Obj.Ghost["clock"].(string); cn != "" {
					certTime = in.clockNow(cn).(*TimeV).Inst
				}
			} else {
				certTime = in.wallNow("dsig with nil Clock").(*TimeV).Inst
			}
		}
		switch sig {
		case "none":
			g := in.P.Pkgs[dsigPkg].Var("ErrMissingSignature")
			return Tuple{nilPtr, in.load(&Ptr{Obj: in.global(g)})}
		case "invalid":
			return Tuple{nilPtr, in.opaqueError("dsig-invalid")}
		case "valid":
			k := intGhost(in, "validate.valid.calls")
			in.Ghost["validate.valid.calls"] = k + 1
			// the IdP certificate of the scenarios is valid from 2000-01-01 to 2100-01-01 (as the replay certificates are):
			// outside that window at the context's clock the signature is not honoured (L2)
			if certTime != nil {
				inWindow := smt.And(smt.BVSle(smt.BV(946684800000000000, 64), certTime), smt.BVSle(certTime, smt.BV(4102444800000000000, 64)))
				if !in.Branch(inWindow) {
					in.event("dsig: context clock outside the IdP certificate's validity period")
					return Tuple{nilPtr, in.opaqueError("dsig-cert-window")}
				}
			}
			if !storeTrustsIdP(call.Store) {
				in.event("dsig: certificate store of the context does not hold the IdP certificate")
				return Tuple{nilPtr, in.opaqueError("dsig-cert-not-in-store")}
			}
			if in.Choose(2) == 1 {
				nm := fmt.Sprintf("%d", k)
				if name != nil && name.Const {
					nm = name.Str
				}
				in.Ghost["choice:dsig.cert-rejected."+nm] = 1
				in.event("dsig: certificate not trusted / outside validity at ctx.Clock")
				return Tuple{nilPtr, in.opaqueError("dsig-cert")}
			}
			return in.dsigVerified(el)
		}
		in.end("internal", "bad vx-sig %q", sig)
		return nil
	}

	intrinsics["vCertRejections"] = func(in *Interp, fn *ssa.Function, a []Value) Value {
		n := 0
		for k := range in.Ghost {
			if len(k) > 26 && k[:26] == "choice:dsig.cert-rejected." {
				n++
			}
		}
		return smt.BV(uint64(n), 64)
	}
	// vIDPStore(): the configured IdP certificate store (its content matters only to the dependency)
	intrinsics["vIDPStore"] = func(in *Interp, fn *ssa.Function, a []Value) Value {
		st := in.P.Pkgs[dsigPkg].Type("MemoryX509CertificateStore").Type()
		o := in.newObject(st, zeroValue(st), "idp store")
		o.Ghost = map[string]interface{}{"trusts-idp": true}
		return &Iface{T: types.NewPointer(st), V: &Ptr{Obj: o}}
	}
	// vEmptyStore(): a certificate store that holds no certificate
	intrinsics["vEmptyStore"] = func(in *Interp, fn *ssa.Function, a []Value) Value {
		st := in.P.Pkgs[dsigPkg].Type("MemoryX509CertificateStore").Type()
		o := in.newObject(st, zeroValue(st), "empty store")
		o.Ghost = map[string]interface{}{"trusts-idp": false}
		return &Iface{T: types.NewPointer(st), V: &Ptr{Obj: o}}
	}
	// vValidateCtxSince(k, sp): Validate calls number k, k+1, ... used sp's current store and clock
	intrinsics["vValidateCtxSince"] = func(in *Interp, fn *ssa.Function, a []Value) Value {
		k := in.concreteInt(termArg(in, a[0]), "vValidateCtxSince k")
		spv := in.load(a[1]).(*StructV)
		st := derefType(fn.Signature.Params().At(1).Type())
		store := spv.F[fieldIndex(st, "IDPCertificateStore")]
		clock := spv.F[fieldIndex(st, "Clock")]
		calls, _ := in.Ghost["validate.calls"].([]*validateCall)
		ok := smt.True
		for i, c := range calls {
			if i >= k {
				ok = smt.And(ok, in.valEq(c.Store, store), in.valEq(c.Clock, clock))
			}
		}
		return ok
	}
	// vhTLSCert(): the SP's tls.Certificate (RSA key "sp", symbolic certificate bytes)
	intrinsics["vhTLSCert"] = func(in *Interp, fn *ssa.Function, a []Value) Value {
		ct := fn.Signature.Results().At(0).Type()
		sv := zeroValue(ct).(*StructV)
		f := make([]Value, len(sv.F))
		copy(f, sv.F)
		certBytes := intrinsics["vBytes"](in, nil, []Value{smt.StrLit("spcert")})
		st := ct.Underlying().(*types.Struct)
		for i := 0; i < st.NumFields(); i++ {
			switch st.Field(i).Name() {
			case "Certificate":
				arr := in.newObject(types.NewArray(st.Field(i).Type().Underlying().(*types.Slice).Elem(), 1), &ArrayV{E: []Value{certBytes}}, "certlist")
				f[i] = &SliceV{Arr: arr, Len: 1, Cap: 1}
			case "PrivateKey":
				kt := in.P.Prog.ImportedPackage("crypto/rsa").Type("PrivateKey").Type()
				var ko *Object
				if o, ok := in.Ghost["rsakey:sp"].(*Object); ok {
					ko = o
				} else {
					ko = in.newObject(kt, zeroValue(kt), "rsakey sp")
					in.Ghost["rsakey:sp"] = ko
				}
				f[i] = &Iface{T: types.NewPointer(kt), V: &Ptr{Obj: ko}}
			}
		}
		return &StructV{F: f}
	}
	// vValidateCalls(): number of dsig.Validate calls so far
	intrinsics["vValidateCalls"] = func(in *Interp, fn *ssa.Function, a []Value) Value {
		calls, _ := in.Ghost["validate.calls"].([]*validateCall)
		return smt.BV(uint64(len(calls)), 64)
	}
	// vValidateCtxOK(sp): every Validate call used sp.IDPCertificateStore and sp.Clock
	intrinsics["vValidateCtxOK"] = func(in *Interp, fn *ssa.Function, a []Value) Value {
		spv := in.load(a[0]).(*StructV)
		st := derefType(fn.Signature.Params().At(0).Type())
		store := spv.F[fieldIndex(st, "IDPCertificateStore")]
		clock := spv.F[fieldIndex(st, "Clock")]
		calls, _ := in.Ghost["validate.calls"].([]*validateCall)
		ok := smt.True
		for _, c := range calls {
			ok = smt.And(ok, in.valEq(c.Store, store), in.valEq(c.Clock, clock))
		}
		return ok
	}
	intrinsics["vScreenedEqualsParsed"] = func(in *Interp, fn *ssa.Function, a []Value) Value {
		// the first document parsed successfully from the wire was also screened by rtvalidator
		parsed, _ := in.Ghost["parsed"].([]string)
		screened, _ := in.Ghost["screened"].([]string)
		if len(screened) == 0 {
			return smt.False
		}
		for _, s := range screened {
			found := false
			for _, p := range parsed {
				if p == s {
					found = true
				}
			}
			if !found {
				return smt.False
			}
		}
		return smt.True
	}
	intrinsics["vScreenRejections"] = func(in *Interp, fn *ssa.Function, a []Value) Value {
		if v, _ := in.Ghost["choice:rtvalidator.rejects"].(int); v == 1 {
			return smt.BV(1, 64)
		}
		return smt.BV(0, 64)
	}
	intrinsics["vScreenCalls"] = func(in *Interp, fn *ssa.Function, a []Value) Value {
		screened, _ := in.Ghost["screened"].([]string)
		return smt.BV(uint64(len(screened)), 64)
	}

	// vEncodeDoc(name, root, mode): the base64 string an attacker / IdP posts for this document.
	// mode 0: raw XML; 1: DEFLATE-compressed; 2: raw XML declaring a non-UTF-8 encoding
	intrinsics["vEncodeDoc"] = func(in *Interp, fn *ssa.Function, a []Value) Value {
		name := in.fresh(constStr(in, a[0], "vEncodeDoc name"))
		root, _ := a[1].(*Ptr)
		mode := in.concreteInt(termArg(in, a[2]), "vEncodeDoc mode")
		enc := smt.NewVar(symName(name), smt.KStr, 0)
		ir := in.addInput(name, "encoded-doc", enc)
		var raw *smt.Term
		if mode == 3 {
			// base64 whose '=' padding was stripped: not valid for StdEncoding, valid for RawStdEncoding
			in.Assume(smt.And(smt.Not(B64OK("std", enc)), B64OK("rawstd", enc)))
			in.Assume(smt.Not(smt.StrSuffixOf(smt.StrLit("="), enc)))
			raw = B64D("rawstd", enc)
			mode = 0
			in.Ghost["choice:"+name+".unpadded"] = 1
		} else {
			in.Assume(B64OK("std", enc))
			raw = B64D("std", enc)
		}
		d := &boundDoc{Name: name}
		if root != nil {
			d.Root = in.elemCopy(root)
		}
		switch mode {
		case 0:
			in.bindDoc(raw, d)
		case 2:
			d.OtherEncoding = true
			in.bindDoc(raw, d)
		case 1:
			infl := Inflate(raw)
			in.bindDoc(infl, d)
			in.Assume(smt.Not(InflateErr(raw)))
			ir.Extra["inflated_len"] = BLen(infl)
			in.Assume(smt.And(smt.BVSle(smt.BV(65536, 64), BLen(infl)), smt.BVSle(BLen(infl), smt.BV(1<<26, 64))))
		}
		in.Ghost["wire:"+name] = raw
		return enc
	}
	// vWireLen(name): inflated size of a compressed document
	intrinsics["vWireInflatedLen"] = func(in *Interp, fn *ssa.Function, a []Value) Value {
		raw, _ := in.Ghost["wire:"+constStr(in, a[0], "name")].(*smt.Term)
		if raw == nil {
			in.end("internal", "vWireInflatedLen: unknown doc")
		}
		return BLen(Inflate(raw))
	}
	// vEncryptTree(name, inner, key, payload) : CipherValue whose AES-GCM decryption (under the wrapped
	// key) yields the serialisation of inner (nil: bytes that do not parse)
	intrinsics["vEncryptTree"] = func(in *Interp, fn *ssa.Function, a []Value) Value {
		name := in.fresh(constStr(in, a[0], "vEncryptTree name"))
		inner, _ := a[1].(*Ptr)
		key, _ := a[2].(*SliceV)
		s := smt.NewVar(symName(name), smt.KStr, 0)
		in.addInput(name, "ciphervalue-tree", s)
		in.Assume(B64OK("std", s))
		data := B64D("std", s)
		in.Assume(smt.BVSle(smt.BV(64, 64), BLen(data)))
		pt := smt.NewVar(symName(name+".plaintext"), smt.KStr, 0)
		compressed := false
		if len(a) > 3 {
			compressed = in.Branch(termArg(in, a[3]))
		}
		if inner != nil {
			d := &boundDoc{Name: name, Root: in.elemCopy(inner)}
			if compressed {
				infl := Inflate(pt)
				in.bindDoc(infl, d)
				in.Assume(smt.Not(InflateErr(pt)))
				in.Assume(smt.And(smt.BVSle(smt.BV(65536, 64), BLen(infl)), smt.BVSle(BLen(infl), smt.BV(1<<26, 64))))
				ir := in.inputIdx[name]
				ir.Extra["inflated_len"] = BLen(infl)
			} else {
				in.bindDoc(pt, d)
			}
		}
		plan := &cipherPlan{Name: name, Plain: smt.NewVar(symName(name+".plain"), smt.KArr, 0), GCMOK: smt.True, Key: key, PlainBlob: pt}
		in.Ghost["cipher:"+data.S] = plan
		in.Ghost["cipherplan:"+name] = plan
		return s
	}
}

// dsigValidateV2: the certificate half of Validate spelled out as goxmldsig's verifyCertificate does it (lemma L2
// executes that code itself): the scenario says which IdP key signed the element (vx-signer = index of a
// certificate made by vStoreCert, or an index no store holds) and whether the Signature carries a KeyInfo
// certificate (vx-keyinfo). The context's store is asked for its certificates through its real method.
func (in *Interp) dsigValidateV2(call *validateCall, el *Ptr, e *xElem, signer string) Value {
	in.X.noteAssumption("goxmldsig verifyCertificate (trust-store scenarios): clock read first; the KeyInfo certificate, or the store's only certificate when there is no KeyInfo (error unless the store holds exactly one), must equal a store certificate and the clock must lie inside its NotBefore..NotAfter; the signature then verifies iff that certificate belongs to the signing key")
	keyinfo := true
	if v, ok := e.attr("vx-keyinfo"); ok && v.Const && v.Str == "0" {
		keyinfo = false
	}
	var now *TimeV
	if cp, _ := call.Clock.(*Ptr); cp != nil {
		if cn, _ := cp.Obj.Ghost["clock"].(string); cn != "" {
			now = in.clockNow(cn).(*TimeV)
		}
	}
	if now == nil {
		now = in.wallNow("dsig with nil Clock").(*TimeV)
	}
	st, _ := call.Store.(*Iface)
	if st == nil || st.T == nil {
		in.goPanic("nil certificate store dereferenced by goxmldsig")
	}
	res := in.callFunction(in.lookupMethodByName(st.T, "Certificates"), []Value{st.V}, nil).(Tuple)
	if ei, _ := res[1].(*Iface); ei != nil && ei.T != nil {
		return Tuple{nilPtr, res[1]}
	}
	roots := in.sliceElems(res[0])
	idx := func(v Value) string {
		p, _ := v.(*Ptr)
		if p == nil || p.Obj == nil || p.Obj.Ghost == nil {
			return "?"
		}
		s, _ := p.Obj.Ghost["idpcert"].(string)
		return s
	}
	var trusted *Ptr
	if keyinfo {
		for _, r := range roots {
			if idx(r) == signer {
				trusted = r.(*Ptr)
			}
		}
		if trusted == nil {
			in.event("dsig: KeyInfo certificate is not in the store")
			return Tuple{nilPtr, in.opaqueError("dsig-cert-not-in-store")}
		}
	} else {
		if len(roots) != 1 {
			in.event("dsig: no KeyInfo and the store does not hold exactly one certificate")
			return Tuple{nilPtr, in.opaqueError("dsig-missing-x509")}
		}
		trusted, _ = roots[0].(*Ptr)
		if trusted == nil {
			in.goPanic("nil certificate in store")
		}
	}
	ct := trusted.Obj.T
	cv := in.load(trusted).(*StructV)
	nb := cv.F[fieldIndex(ct, "NotBefore")].(*TimeV)
	na := cv.F[fieldIndex(ct, "NotAfter")].(*TimeV)
	if in.Branch(smt.Or(smt.BVSlt(now.Inst, nb.Inst), smt.BVSlt(na.Inst, now.Inst))) {
		in.event("dsig: certificate outside its validity at ctx.Clock")
		return Tuple{nilPtr, in.opaqueError("dsig-cert-window")}
	}
	if idx(trusted) != signer {
		in.event("dsig: signature does not verify under the store's certificate")
		return Tuple{nilPtr, in.opaqueError("dsig-invalid")}
	}
	return in.dsigVerified(el)
}

func init() {
	// vStoreCert(i): the certificate of IdP signing key number i (validity bounds symbolic, whole seconds 1970..2100)
	intrinsics["vStoreCert"] = func(in *Interp, fn *ssa.Function, a []Value) Value {
		i := in.concreteInt(termArg(in, a[0]), "vStoreCert index")
		key := fmt.Sprintf("storecert:%d", i)
		if o, ok := in.Ghost[key].(*Object); ok {
			return &Ptr{Obj: o}
		}
		ct := derefType(fn.Signature.Results().At(0).Type())
		sv := zeroValue(ct).(*StructV)
		f := make([]Value, len(sv.F))
		copy(f, sv.F)
		name := fmt.Sprintf("idpcert.%d", i)
		nbs := smt.NewVar(symName(name+".nb_sec"), smt.KBV, 64)
		nas := smt.NewVar(symName(name+".na_sec"), smt.KBV, 64)
		in.addInput(name+".nb_sec", "i64", nbs)
		in.addInput(name+".na_sec", "i64", nas)
		in.Assume(smt.And(smt.BVSle(smt.BV(0, 64), nbs), smt.BVSle(nbs, nas), smt.BVSle(nas, smt.BV(4102444800, 64))))
		f[fieldIndex(ct, "NotBefore")] = &TimeV{Inst: smt.BVMul(nbs, smt.BV(1000000000, 64)), UTC: smt.True, Clock: "cert"}
		f[fieldIndex(ct, "NotAfter")] = &TimeV{Inst: smt.BVMul(nas, smt.BV(1000000000, 64)), UTC: smt.True, Clock: "cert"}
		o := in.newObject(ct, &StructV{F: f}, name)
		o.Ghost = map[string]interface{}{"idpcert": fmt.Sprintf("%d", i)}
		in.Ghost[key] = o
		return &Ptr{Obj: o}
	}
	for _, w := range []string{"NotBefore", "NotAfter"} {
		w := w
		intrinsics["vStoreCert"+w] = func(in *Interp, fn *ssa.Function, a []Value) Value {
			i := in.concreteInt(termArg(in, a[0]), "vStoreCert index")
			o, ok := in.Ghost[fmt.Sprintf("storecert:%d", i)].(*Object)
			if !ok {
				in.end("internal", "vStoreCert%s(%d): no such certificate", w, i)
			}
			return o.V.(*StructV).F[fieldIndex(o.T, w)].(*TimeV).Inst
		}
	}
}
