package sx

import (
	"fmt"

	"verif/engine/smt"

	"golang.org/x/tools/go/ssa"
)

// crypto/rand is an infinite stream of symbolic bytes rand.0, rand.1, ... (inputs of the run);
// math/rand produces bytes that are NOT part of that stream.

func (in *Interp) randByte(i int) *smt.Term {
	name := fmt.Sprintf("rand.%d", i)
	if ir, ok := in.inputIdx[name]; ok {
		return ir.Term
	}
	t := smt.NewVar(symName(name), smt.KBV, 8)
	in.addInput(name, "byte", t)
	return t
}

func (in *Interp) fillFromCryptoStream(s *SliceV, n int, why string) {
	pos, _ := in.Ghost["rand.pos"].(int)
	if s.SB != nil {
		in.end("unmodelled", "crypto/rand into symbolic-length buffer at %s", in.where())
	}
	if n > 0 {
		arr := s.Arr.V.(*ArrayV)
		e := make([]Value, len(arr.E))
		copy(e, arr.E)
		for i := 0; i < n; i++ {
			e[s.Off+i] = in.randByte(pos + i)
		}
		s.Arr.V = &ArrayV{E: e}
	}
	in.Ghost["rand.pos"] = pos + n
	in.event("crypto/rand %s n=%d", why, n)
}

func (in *Interp) fillFromPRNG(s *SliceV, why string) {
	if s.SB != nil || s.Len == 0 {
		return
	}
	arr := s.Arr.V.(*ArrayV)
	e := make([]Value, len(arr.E))
	copy(e, arr.E)
	for i := 0; i < s.Len; i++ {
		e[s.Off+i] = smt.NewVar(symName(in.fresh("prng")), smt.KBV, 8)
	}
	s.Arr.V = &ArrayV{E: e}
	in.event("PREDICTABLE math/rand %s n=%d", why, s.Len)
}

var globalHooks = map[string]func(in *Interp) Value{}

func init() {
	models["crypto/rand.Read"] = func(in *Interp, fn *ssa.Function, a []Value) Value {
		s := a[0].(*SliceV)
		in.fillFromCryptoStream(s, s.Len, "Read")
		in.X.noteAssumption("crypto/rand.Read fills the whole buffer and does not fail (io.ReadFull semantics; Go >= 1.24 documents it as infallible)")
		return Tuple{smt.BV(uint64(s.Len), 64), nilError()}
	}
	globalHooks["crypto/rand.Reader"] = func(in *Interp) Value {
		return in.ghostIface("cryptoreader", nil)
	}
	ghostMethods["cryptoreader.Read"] = func(in *Interp, self *Object, a []Value) Value {
		s := a[0].(*SliceV)
		n := s.Len
		if n > 1 && in.Choose(2) == 1 {
			// io.Reader contract: a Read may return fewer bytes than requested with a nil error
			k, _ := in.Ghost["rand.shortreads"].(int)
			in.Ghost["rand.shortreads"] = k + 1
			in.Ghost["choice:rand.shortread"] = 1
			n = 1
		}
		in.fillFromCryptoStream(s, n, "Reader.Read")
		return Tuple{smt.BV(uint64(n), 64), nilError()}
	}
	readFull := func(in *Interp, fn *ssa.Function, a []Value) Value {
		g := ghostOf(a[0])
		if ghostKind(g) != "cryptoreader" {
			return in.unmodelled(fn, a)
		}
		s := a[1].(*SliceV)
		in.fillFromCryptoStream(s, s.Len, "io.ReadFull(Reader)")
		return Tuple{smt.BV(uint64(s.Len), 64), nilError()}
	}
	models["io.ReadFull"] = readFull
	for _, name := range []string{"math/rand.Read", "(*math/rand.Rand).Read"} {
		name := name
		models[name] = func(in *Interp, fn *ssa.Function, a []Value) Value {
			s := a[len(a)-1].(*SliceV)
			in.fillFromPRNG(s, name)
			return Tuple{smt.BV(uint64(s.Len), 64), nilError()}
		}
	}
	for _, name := range []string{"math/rand.Int", "math/rand.Intn", "math/rand.Int63", "math/rand.Int31", "math/rand.Uint32", "math/rand.Uint64",
		"math/rand/v2.Uint64", "math/rand/v2.Uint32", "math/rand/v2.Int", "math/rand/v2.IntN", "math/rand/v2.Int64"} {
		name := name
		models[name] = func(in *Interp, fn *ssa.Function, a []Value) Value {
			in.event("PREDICTABLE %s", name)
			rt := fn.Signature.Results().At(0).Type()
			w, _ := bvWidth(basicOf(rt))
			return smt.NewVar(symName(in.fresh("prng_int")), smt.KBV, w)
		}
	}
	intrinsics["vRandPos"] = func(in *Interp, fn *ssa.Function, a []Value) Value {
		pos, _ := in.Ghost["rand.pos"].(int)
		return smt.BV(uint64(pos), 64)
	}
	intrinsics["vRandByte"] = func(in *Interp, fn *ssa.Function, a []Value) Value {
		i := in.concreteInt(a[0].(*smt.Term), "vRandByte index")
		pos, _ := in.Ghost["rand.pos"].(int)
		if i < 0 || i >= pos {
			in.end("internal", "vRandByte(%d): only %d bytes drawn", i, pos)
		}
		return in.randByte(i)
	}
	// vIsUnderscoreUUID(id): id == "_" + canonical rendering of the last 16 crypto-stream bytes with version/variant forced
	intrinsics["vIsUnderscoreUUID"] = func(in *Interp, fn *ssa.Function, a []Value) Value {
		id := termArg(in, a[0])
		pos, _ := in.Ghost["rand.pos"].(int)
		if pos < 16 {
			return smt.False
		}
		parts := []*smt.Term{smt.StrLit("_")}
		for i := 0; i < 16; i++ {
			b := in.randByte(pos - 16 + i)
			if i == 6 {
				b = smt.BVOr(smt.BVAnd(b, smt.BV(0x0f, 8)), smt.BV(0x40, 8))
			}
			if i == 8 {
				b = smt.BVOr(smt.BVAnd(b, smt.BV(0x3f, 8)), smt.BV(0x80, 8))
			}
			if i == 4 || i == 6 || i == 8 || i == 10 {
				parts = append(parts, smt.StrLit("-"))
			}
			parts = append(parts, HexNibble(smt.Extract(b, 7, 4)), HexNibble(smt.Extract(b, 3, 0)))
		}
		return smt.Eq(id, smt.StrConcat(parts...))
	}
	intrinsics["vRandInstall"] = func(in *Interp, fn *ssa.Function, a []Value) Value { return nil }
	intrinsics["vHex"] = func(in *Interp, fn *ssa.Function, a []Value) Value {
		b := a[0].(*smt.Term)
		return smt.StrConcat(HexNibble(smt.Extract(b, 7, 4)), HexNibble(smt.Extract(b, 3, 0)))
	}
}
