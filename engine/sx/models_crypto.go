package sx

import (
	"fmt"
	"go/types"

	"verif/engine/smt"

	"golang.org/x/tools/go/ssa"
)

// Functional contracts of the crypto primitives (DESIGN §2). Key transport and symmetric decryption
// return what the harness *planned* when the ciphertext came from vWrapKey / vCipherValue and the code
// used the matching primitive with the matching key; otherwise an error. Contents are arbitrary
// (attacker-chosen) symbolic bytes.

type wrapPlan struct {
	Name    string
	Family  string // "oaep", "pkcs1v15", "garbage"
	Hash    string // "sha1","sha256","sha512" (OAEP)
	Key     *Object
	Payload *SliceV
}

type cipherPlan struct {
	Name string
	// post-decryption bytes (CBC) as an SMT array variable; GCM: opaque plaintext
	Plain *smt.Term
	GCMOK *smt.Term
	Key   *SliceV
	// orchestration scenarios: the plaintext GCM Open yields (bound to a scenario tree or unparsable)
	PlainBlob *smt.Term
}

const cipherBound = 64

func hashKind(in *Interp, v Value) string {
	g := ghostOf(v)
	if ghostKind(g) == "hash" {
		return g.Ghost["name"].(string)
	}
	return "?"
}

func (in *Interp) freshBytes(prefix string) *SliceV {
	name := in.fresh(prefix)
	s := smt.NewVar(symName(name), smt.KStr, 0)
	return in.SymBytesOfStr(s)
}

func init() {
	for _, h := range []struct{ fn, name string }{{"crypto/sha1.New", "sha1"}, {"crypto/sha256.New", "sha256"}, {"crypto/sha512.New", "sha512"},
		{"crypto/sha256.New224", "sha224"}, {"crypto/sha512.New384", "sha384"}, {"crypto/md5.New", "md5"}} {
		h := h
		models[h.fn] = func(in *Interp, fn *ssa.Function, a []Value) Value {
			return in.ghostIface("hash", map[string]interface{}{"name": h.name})
		}
	}
	// formatting-only helper of the repo (error message fingerprint): empty body
	models["github.com/russellhaering/gosaml2/types.debugKeyFp"] = func(in *Interp, fn *ssa.Function, a []Value) Value {
		in.X.noteAssumption("types.debugKeyFp (SHA-1 fingerprint used only inside an error message) stubbed: returns an arbitrary string")
		return smt.NewVar(symName(in.fresh("keyfp")), smt.KStr, 0)
	}
	models["bytes.Equal"] = func(in *Interp, fn *ssa.Function, a []Value) Value {
		x, y := a[0].(*SliceV), a[1].(*SliceV)
		return smt.Eq(in.stringOfBytes(x), in.stringOfBytes(y))
	}

	keyTransport := func(family string) modelFn {
		return func(in *Interp, fn *ssa.Function, a []Value) Value {
			var hash string
			var pk, ct Value
			if family == "oaep" {
				hash = hashKind(in, a[0])
				pk, ct = a[2], a[3]
			} else {
				pk, ct = a[1], a[2]
			}
			pkp, _ := pk.(*Ptr)
			if pkp == nil {
				in.goPanic("nil *rsa.PrivateKey")
			}
			cts := in.stringOfBytes(ct.(*SliceV))
			in.event("rsa.decrypt family=%s hash=%s key=obj%d", family, hash, pkp.Obj.ID)
			in.Ghost["rsa.decrypt.calls"] = intGhost(in, "rsa.decrypt.calls") + 1
			in.Ghost["rsa.decrypt.last"] = fmt.Sprintf("%s/%s/obj%d", family, hash, pkp.Obj.ID)
			plan, _ := in.Ghost["wrap:"+cts.S].(*wrapPlan)
			if plan == nil {
				// ciphertext not produced by vWrapKey (every attacker-made wrapping is expressible through
				// vWrapKey with an arbitrary payload): decryption error
				in.X.noteAssumption("RSA key transport: ciphertexts other than those built by the harness with vWrapKey (arbitrary payload, any algorithm) fail to decrypt")
				return Tuple{&SliceV{}, in.opaqueError("rsa")}
			}
			if plan.Family != family || plan.Key != pkp.Obj || (family == "oaep" && plan.Hash != hash) {
				in.event("rsa.decrypt mismatch: planned %s/%s", plan.Family, plan.Hash)
				return Tuple{&SliceV{}, in.opaqueError("rsa")}
			}
			return Tuple{plan.Payload, nilError()}
		}
	}
	// (*rsa.PrivateKey).Decrypt(rand, ct, opts): OAEP when opts is *rsa.OAEPOptions (the hash must be linked into the
	// binary, otherwise crypto.Hash.New panics), PKCS#1 v1.5 when opts is nil or *rsa.PKCS1v15DecryptOptions
	models["(*crypto/rsa.PrivateKey).Decrypt"] = func(in *Interp, fn *ssa.Function, a []Value) Value {
		opts, _ := a[3].(*Iface)
		if opts == nil || opts.T == nil {
			return keyTransport("pkcs1v15")(in, fn, []Value{a[1], a[0], a[2]})
		}
		ts := types.TypeString(opts.T, nil)
		if ts == "*crypto/rsa.PKCS1v15DecryptOptions" {
			return keyTransport("pkcs1v15")(in, fn, []Value{a[1], a[0], a[2]})
		}
		if ts != "*crypto/rsa.OAEPOptions" {
			in.end("unmodelled", "rsa.PrivateKey.Decrypt with options %s at %s", ts, in.where())
		}
		op, _ := opts.V.(*Ptr)
		if op == nil {
			in.goPanic("nil *rsa.OAEPOptions")
		}
		ov := in.load(op).(*StructV)
		h, _ := ov.F[fieldIndex(derefType(opts.T), "Hash")].(*smt.Term)
		if h == nil || !h.Const {
			in.end("unmodelled", "rsa.OAEPOptions with a symbolic hash at %s", in.where())
		}
		// crypto.Hash values whose implementation this binary links (crypto/md5, sha1, sha256, sha512 via the repo and x509)
		names := map[uint64]string{2: "md5", 3: "sha1", 4: "sha224", 5: "sha256", 6: "sha384", 7: "sha512"}
		name, ok := names[h.U]
		in.X.noteAssumption("crypto.Hash.New panics for a hash function whose package is not linked into the binary (linked here: MD5, SHA-1, SHA-224/256, SHA-384/512)")
		if !ok {
			in.goPanic("crypto: requested hash function #%d is unavailable", h.U)
		}
		hv := in.ghostIface("hash", map[string]interface{}{"name": name})
		return keyTransport("oaep")(in, fn, []Value{hv, a[1], a[0], a[2], &SliceV{}})
	}
	models["crypto/rsa.DecryptOAEP"] = keyTransport("oaep")
	models["crypto/rsa.DecryptPKCS1v15"] = keyTransport("pkcs1v15")

	models["crypto/aes.NewCipher"] = func(in *Interp, fn *ssa.Function, a []Value) Value {
		k := a[0].(*SliceV)
		n := in.lenOf(k)
		ok := smt.Or(smt.Eq(n, smt.BV(16, 64)), smt.Eq(n, smt.BV(24, 64)), smt.Eq(n, smt.BV(32, 64)))
		in.X.noteAssumption("crypto/aes.NewCipher: error unless the key is 16, 24 or 32 bytes; BlockSize()=16")
		if in.Branch(ok) {
			return Tuple{in.ghostIface("aesblock", map[string]interface{}{"key": k}), nilError()}
		}
		return Tuple{&Iface{}, in.opaqueError("aes-keysize")}
	}
	ghostMethods["aesblock.BlockSize"] = func(in *Interp, self *Object, a []Value) Value { return smt.BV(16, 64) }
	models["crypto/cipher.NewGCM"] = func(in *Interp, fn *ssa.Function, a []Value) Value {
		g := ghostOf(a[0])
		if ghostKind(g) != "aesblock" {
			in.goPanic("cipher.NewGCM on nil/unknown block")
		}
		return Tuple{in.ghostIface("gcm", map[string]interface{}{"block": g}), nilError()}
	}
	ghostMethods["gcm.NonceSize"] = func(in *Interp, self *Object, a []Value) Value { return smt.BV(12, 64) }
	ghostMethods["gcm.Overhead"] = func(in *Interp, self *Object, a []Value) Value { return smt.BV(16, 64) }
	ghostMethods["gcm.Open"] = func(in *Interp, self *Object, a []Value) Value {
		nonce, ct := a[1].(*SliceV), a[2].(*SliceV)
		in.X.noteAssumption("cipher.AEAD(GCM).Open: panics on a nonce that is not 12 bytes; fails on ciphertext shorter than the 16-byte tag or with a bad tag; otherwise returns len(ct)-16 bytes")
		if !in.Branch(smt.Eq(in.lenOf(nonce), smt.BV(12, 64))) {
			in.goPanic("crypto/cipher: incorrect nonce length given to GCM")
		}
		n := in.lenOf(ct)
		plan := in.findCipherPlan(ct)
		var okT *smt.Term
		if plan != nil {
			okT = plan.GCMOK
		} else {
			okT = smt.NewVar(symName(in.fresh("gcm_ok")), smt.KBool, 0)
		}
		if !in.Branch(smt.And(smt.BVSle(smt.BV(16, 64), n), okT)) {
			return Tuple{&SliceV{}, in.opaqueError("gcm-open")}
		}
		var pt *SliceV
		if plan != nil && plan.PlainBlob != nil {
			pt = in.SymBytesOfStr(plan.PlainBlob)
		} else {
			pt = in.freshBytes("gcm_plain")
		}
		in.Assume(smt.Eq(pt.SB.Len, smt.BVSub(n, smt.BV(16, 64))))
		in.Ghost["gcm.opened"] = pt
		return Tuple{pt, nilError()}
	}
	models["crypto/cipher.NewCBCDecrypter"] = func(in *Interp, fn *ssa.Function, a []Value) Value {
		g := ghostOf(a[0])
		if ghostKind(g) != "aesblock" {
			in.goPanic("cipher.NewCBCDecrypter on nil/unknown block")
		}
		iv := a[1].(*SliceV)
		in.X.noteAssumption("cipher.NewCBCDecrypter panics unless len(iv) == BlockSize; CryptBlocks panics unless len(src) is a multiple of the block size and len(dst) >= len(src), and overwrites dst with the (attacker-chosen) plaintext bytes")
		if !in.Branch(smt.Eq(in.lenOf(iv), smt.BV(16, 64))) {
			in.goPanic("cipher.NewCBCDecrypter: IV length must equal block size")
		}
		return in.ghostIface("cbc", map[string]interface{}{"block": g})
	}
	ghostMethods["cbc.BlockSize"] = func(in *Interp, self *Object, a []Value) Value { return smt.BV(16, 64) }
	ghostMethods["cbc.CryptBlocks"] = func(in *Interp, self *Object, a []Value) Value {
		dst, src := a[0].(*SliceV), a[1].(*SliceV)
		n := in.lenOf(src)
		if !in.Branch(smt.Eq(smt.BVURem(n, smt.BV(16, 64)), smt.BV(0, 64))) {
			in.goPanic("crypto/cipher: input not full blocks")
		}
		if !in.Branch(smt.BVSle(n, in.lenOf(dst))) {
			in.goPanic("crypto/cipher: output smaller than input")
		}
		if dst.SB == nil {
			in.end("unmodelled", "CryptBlocks into a concrete buffer at %s", in.where())
		}
		plan := in.findCipherPlan(src)
		var arr *smt.Term
		if plan != nil {
			arr = plan.Plain
		} else {
			arr = smt.NewVar(symName(in.fresh("cbc_plain")), smt.KArr, 0)
		}
		// the plaintext occupies dst[0:n): rebase so that index dst.Off+i reads plain[i]
		dst.SB.Buf.Str = nil
		dst.SB.Buf.Arr = arr
		dst.SB.Buf.Base = dst.SB.Off
		in.event("cbc.CryptBlocks")
		return nil
	}

	// bytes.TrimRight(data, cutset) for a single-byte cutset: strip the maximal suffix of that byte.
	models["bytes.TrimRight"] = func(in *Interp, fn *ssa.Function, a []Value) Value {
		data := a[0].(*SliceV)
		cs := termArg(in, a[1])
		if !cs.Const || len(cs.Str) != 1 {
			in.end("unmodelled", "bytes.TrimRight with cutset %s at %s", cs.S, in.where())
		}
		c := smt.BV(uint64(cs.Str[0]), 8)
		in.X.noteAssumption("bytes.TrimRight(b, single-byte cutset) = b without its maximal suffix of that byte (by definition)")
		if data.SB == nil {
			n := data.Len
			for n > 0 {
				arr := data.Arr.V.(*ArrayV)
				b := arr.E[data.Off+n-1].(*smt.Term)
				if !in.Branch(smt.Eq(b, c)) {
					break
				}
				n--
			}
			if n == 0 {
				return &SliceV{}
			}
			return &SliceV{Arr: data.Arr, Off: data.Off, Len: n, Cap: data.Cap}
		}
		sb := data.SB
		n := sb.Len
		for k := 0; ; k++ {
			if k > cipherBound+1 {
				in.end("unwind", "bytes.TrimRight: more than %d trailing bytes examined", cipherBound)
			}
			// stop if empty
			if in.Branch(smt.Eq(n, smt.BV(0, 64))) {
				// Go returns nil for an empty result
				return &SliceV{}
			}
			last := in.sbRead(sb, smt.BVSub(n, smt.BV(1, 64)))
			if !in.Branch(smt.Eq(last, c)) {
				break
			}
			n = smt.BVSub(n, smt.BV(1, 64))
		}
		return &SliceV{SB: &SymBytes{Buf: sb.Buf, Off: sb.Off, Len: n, Cap: sb.Cap}}
	}

	// ---- harness-side planning intrinsics ----

	// vRSAKey(name) *rsa.PrivateKey
	intrinsics["vRSAKey"] = func(in *Interp, fn *ssa.Function, a []Value) Value {
		name := constStr(in, a[0], "vRSAKey name")
		if o, ok := in.Ghost["rsakey:"+name].(*Object); ok {
			return &Ptr{Obj: o}
		}
		pt := fn.Signature.Results().At(0).Type()
		o := in.newObject(derefType(pt), zeroValue(derefType(pt)), "rsakey "+name)
		in.Ghost["rsakey:"+name] = o
		return &Ptr{Obj: o}
	}
	// vWrapKey(name, key, transportAlg, digestAlg, payload) string : CipherValue of an EncryptedKey
	intrinsics["vWrapKey"] = func(in *Interp, fn *ssa.Function, a []Value) Value {
		name := in.fresh(constStr(in, a[0], "vWrapKey name"))
		keyp, _ := a[1].(*Ptr)
		alg, dig := termArg(in, a[2]), termArg(in, a[3])
		payload := a[4].(*SliceV)
		s := smt.NewVar(symName(name), smt.KStr, 0)
		ir := in.addInput(name, "wrapped", s)
		ir.Extra["b64ok"] = B64OK("std", s)
		ir.Extra["payload_len"] = in.lenOf(payload)
		// what the wrapping really is: decided by the (symbolic) algorithm strings
		plan := &wrapPlan{Name: name, Payload: payload}
		if keyp != nil {
			plan.Key = keyp.Obj
		}
		switch {
		case in.Branch(smt.Or(smt.Eq(alg, smt.StrLit("http://www.w3.org/2001/04/xmlenc#rsa-oaep-mgf1p")), smt.Eq(alg, smt.StrLit("http://www.w3.org/2009/xmlenc11#rsa-oaep")))):
			plan.Family = "oaep"
			switch {
			case in.Branch(smt.Or(smt.Eq(dig, smt.StrLit("")), smt.Eq(dig, smt.StrLit("http://www.w3.org/2000/09/xmldsig#sha1")))):
				plan.Hash = "sha1"
			case in.Branch(smt.Eq(dig, smt.StrLit("http://www.w3.org/2000/09/xmldsig#sha256"))):
				plan.Hash = "sha256"
			case in.Branch(smt.Eq(dig, smt.StrLit("http://www.w3.org/2000/09/xmldsig#sha512"))):
				plan.Hash = "sha512"
			default:
				plan.Hash = "other"
			}
		case in.Branch(smt.Eq(alg, smt.StrLit("http://www.w3.org/2001/04/xmlenc#rsa-1_5"))):
			plan.Family = "pkcs1v15"
		default:
			plan.Family = "garbage"
		}
		in.Ghost["wrap:"+B64D("std", s).S] = plan
		in.Ghost["choice:"+name+".family"] = plan.Family + "/" + plan.Hash
		return s
	}
	// vCipherValue(name, key) string : CipherValue of EncryptedData; content planned per use
	intrinsics["vCipherValue"] = func(in *Interp, fn *ssa.Function, a []Value) Value {
		name := in.fresh(constStr(in, a[0], "vCipherValue name"))
		key, _ := a[2].(*SliceV)
		s := smt.NewVar(symName(name), smt.KStr, 0)
		ir := in.addInput(name, "ciphervalue", s)
		data := B64D("std", s)
		ir.Extra["b64ok"] = B64OK("std", s)
		ir.Extra["len"] = BLen(data)
		plain := smt.NewVar(symName(name+".plain"), smt.KArr, 0)
		for i := 0; i < cipherBound; i++ {
			ir.Extra[fmt.Sprintf("plain.%02d", i)] = smt.Select(plain, smt.BV(uint64(i), 64))
		}
		gcmok := smt.NewVar(symName(name+".gcm_ok"), smt.KBool, 0)
		ir.Extra["gcm_ok"] = gcmok
		maxLen := in.concreteInt(termArg(in, a[3]), "vCipherValue maxLen")
		if maxLen > cipherBound {
			in.end("internal", "vCipherValue maxLen > %d", cipherBound)
		}
		in.Assume(smt.And(smt.BVSle(smt.BV(0, 64), BLen(data)), smt.BVSle(BLen(data), smt.BV(uint64(maxLen), 64))))
		in.Ghost["cipher:"+data.S] = &cipherPlan{Name: name, Plain: plain, GCMOK: gcmok, Key: key}
		in.Ghost["cipherplan:"+name] = in.Ghost["cipher:"+data.S]
		return s
	}
	// vPlainByte(name, i): i-th post-decryption byte planned for that CipherValue
	intrinsics["vPlainByte"] = func(in *Interp, fn *ssa.Function, a []Value) Value {
		name := constStr(in, a[0], "vPlainByte name")
		p, _ := in.Ghost["cipherplan:"+name].(*cipherPlan)
		if p == nil {
			in.end("internal", "vPlainByte: no plan %s", name)
		}
		return smt.Select(p.Plain, termArg(in, a[1]))
	}
	intrinsics["vGCMTagOK"] = func(in *Interp, fn *ssa.Function, a []Value) Value {
		name := constStr(in, a[0], "vGCMTagOK name")
		p, _ := in.Ghost["cipherplan:"+name].(*cipherPlan)
		if p == nil {
			in.end("internal", "vGCMTagOK: no plan %s", name)
		}
		return p.GCMOK
	}
	intrinsics["vIsGCMOpened"] = func(in *Interp, fn *ssa.Function, a []Value) Value {
		pt, _ := in.Ghost["gcm.opened"].(*SliceV)
		out := a[0].(*SliceV)
		if pt == nil {
			return smt.False
		}
		return smt.And(smt.Eq(in.stringOfBytes(out), in.stringOfBytes(pt)), smt.Eq(in.lenOf(out), in.lenOf(pt)))
	}
	intrinsics["vCipherLen"] = func(in *Interp, fn *ssa.Function, a []Value) Value {
		s := termArg(in, a[0])
		return BLen(B64D("std", s))
	}
	intrinsics["vB64OK"] = func(in *Interp, fn *ssa.Function, a []Value) Value { return B64OK("std", termArg(in, a[0])) }
	intrinsics["vByteAt"] = func(in *Interp, fn *ssa.Function, a []Value) Value {
		s := a[0].(*SliceV)
		idx := termArg(in, a[1])
		if s.SB != nil {
			return in.sbRead(s.SB, idx)
		}
		return in.load(in.indexAddr(s, idx, nil, nil))
	}
	intrinsics["vRSADecryptCalls"] = func(in *Interp, fn *ssa.Function, a []Value) Value {
		return smt.BV(uint64(intGhost(in, "rsa.decrypt.calls")), 64)
	}
}

func intGhost(in *Interp, k string) int {
	v, _ := in.Ghost[k].(int)
	return v
}

// findCipherPlan: the plan registered for the buffer this slice views (by base64-decoded content term).
func (in *Interp) findCipherPlan(s *SliceV) *cipherPlan {
	if s.SB == nil {
		return nil
	}
	if s.SB.Buf.Origin != nil {
		if p, ok := in.Ghost["cipher:"+s.SB.Buf.Origin.S].(*cipherPlan); ok {
			return p
		}
	}
	if s.SB.Buf.Str != nil {
		if p, ok := in.Ghost["cipher:"+s.SB.Buf.Str.S].(*cipherPlan); ok {
			return p
		}
	}
	return nil
}

// ---- crypto/x509.ParseCertificate: a deterministic function of the DER bytes ----

func x509OK(c *smt.Term) *smt.Term {
	return smt.UF("x509_ok", []string{"String"}, &smt.Term{K: smt.KBool}, c)
}
func x509Sec(which string, c *smt.Term) *smt.Term {
	return smt.UF("x509_"+which+"_sec", []string{"String"}, &smt.Term{K: smt.KBV, W: 64}, c)
}

// x509Instant: certificate validity bounds have one-second resolution, 1970..2100
func (in *Interp) x509Instant(which string, c *smt.Term) *smt.Term {
	sec := x509Sec(which, c)
	in.assumeOnce(smt.And(smt.BVSle(smt.BV(0, 64), sec), smt.BVSle(sec, smt.BV(4102444800, 64))))
	return smt.BVMul(sec, smt.BV(1000000000, 64))
}

func init() {
	models["crypto/x509.ParseCertificate"] = func(in *Interp, fn *ssa.Function, a []Value) Value {
		content := in.stringOfBytes(a[0].(*SliceV))
		in.event("x509.ParseCertificate")
		in.Ghost["x509.parse.calls"] = intGhost(in, "x509.parse.calls") + 1
		in.X.noteAssumption("crypto/x509.ParseCertificate: error or certificate as a deterministic function of the DER bytes; NotBefore/NotAfter whole seconds between 1970 and 2100")
		pt := fn.Signature.Results().At(0).Type()
		ct := derefType(pt)
		if !in.Branch(x509OK(content)) {
			return Tuple{nilPtr, in.opaqueError("x509")}
		}
		sv := zeroValue(ct).(*StructV)
		f := make([]Value, len(sv.F))
		copy(f, sv.F)
		f[fieldIndex(ct, "NotBefore")] = &TimeV{Inst: in.x509Instant("nb", content), UTC: smt.True, Clock: "cert"}
		f[fieldIndex(ct, "NotAfter")] = &TimeV{Inst: in.x509Instant("na", content), UTC: smt.True, Clock: "cert"}
		f[fieldIndex(ct, "Raw")] = in.SymBytesOfStr(content)
		o := in.newObject(ct, &StructV{F: f}, "x509 cert")
		return Tuple{&Ptr{Obj: o}, nilError()}
	}
	// vCertBytes(name): DER bytes of a certificate-like blob (possibly empty / unparsable)
	intrinsics["vCertBytes"] = func(in *Interp, fn *ssa.Function, a []Value) Value {
		name := constStr(in, a[0], "vCertBytes name")
		sl := intrinsics["vBytes"](in, nil, []Value{a[0]}).(*SliceV)
		ir := in.inputIdx[name]
		content := in.stringOfBytes(sl)
		ir.Extra["x509_ok"] = x509OK(content)
		ir.Extra["nb_sec"] = x509Sec("nb", content)
		ir.Extra["na_sec"] = x509Sec("na", content)
		in.Assume(smt.Implies(x509OK(content), smt.Not(smt.Eq(content, smt.StrLit("")))))
		return sl
	}
	intrinsics["vX509OK"] = func(in *Interp, fn *ssa.Function, a []Value) Value {
		return x509OK(in.stringOfBytes(a[0].(*SliceV)))
	}
	intrinsics["vX509NotBefore"] = func(in *Interp, fn *ssa.Function, a []Value) Value {
		return in.x509Instant("nb", in.stringOfBytes(a[0].(*SliceV)))
	}
	intrinsics["vX509NotAfter"] = func(in *Interp, fn *ssa.Function, a []Value) Value {
		return in.x509Instant("na", in.stringOfBytes(a[0].(*SliceV)))
	}
	intrinsics["vX509ParseCalls"] = func(in *Interp, fn *ssa.Function, a []Value) Value {
		return smt.BV(uint64(intGhost(in, "x509.parse.calls")), 64)
	}
}

// ---- lemma support: running goxmldsig's real verifyCertificate (L2) ----

func init() {
	models["(*crypto/x509.Certificate).Equal"] = func(in *Interp, fn *ssa.Function, a []Value) Value {
		x, _ := a[0].(*Ptr)
		y, _ := a[1].(*Ptr)
		if x == nil || y == nil {
			return smt.Bool(x == nil && y == nil)
		}
		ct := derefType(fn.Signature.Recv().Type())
		xr := in.load(x).(*StructV).F[fieldIndex(ct, "Raw")].(*SliceV)
		yr := in.load(y).(*StructV).F[fieldIndex(ct, "Raw")].(*SliceV)
		in.X.noteAssumption("x509.Certificate.Equal = equality of the Raw DER bytes (stdlib definition)")
		return smt.Eq(in.stringOfBytes(xr), in.stringOfBytes(yr))
	}
	models["(*regexp.Regexp).ReplaceAllString"] = func(in *Interp, fn *ssa.Function, a []Value) Value {
		s := termArg(in, a[1])
		in.X.noteAssumption("regexp ReplaceAllString (white-space stripping of the embedded certificate text): uninterpreted function of the string")
		return smt.UF("regexp_replace_all", []string{"String"}, &smt.Term{K: smt.KStr}, s)
	}
	// vX509Cert(name): a parsed certificate whose Raw bytes are symbolic; validity bounds are the same
	// functions of the bytes that the ParseCertificate model uses
	intrinsics["vX509Cert"] = func(in *Interp, fn *ssa.Function, a []Value) Value {
		sl := intrinsics["vCertBytes"](in, nil, []Value{a[0]}).(*SliceV)
		content := in.stringOfBytes(sl)
		in.Assume(x509OK(content))
		ct := derefType(fn.Signature.Results().At(0).Type())
		sv := zeroValue(ct).(*StructV)
		f := make([]Value, len(sv.F))
		copy(f, sv.F)
		f[fieldIndex(ct, "NotBefore")] = &TimeV{Inst: in.x509Instant("nb", content), UTC: smt.True, Clock: "cert"}
		f[fieldIndex(ct, "NotAfter")] = &TimeV{Inst: in.x509Instant("na", content), UTC: smt.True, Clock: "cert"}
		f[fieldIndex(ct, "Raw")] = sl
		o := in.newObject(ct, &StructV{F: f}, "x509 cert "+constStr(in, a[0], "name"))
		return &Ptr{Obj: o}
	}
	// vVerifyCertificate(ctx, sig): calls goxmldsig's unexported (*ValidationContext).verifyCertificate (real SSA)
	intrinsics["vVerifyCertificate"] = func(in *Interp, fn *ssa.Function, a []Value) Value {
		pkg := in.P.Pkgs[dsigPkg]
		vt := pkg.Type("ValidationContext").Type()
		f := in.P.Prog.LookupMethod(types.NewPointer(vt), pkg.Pkg, "verifyCertificate")
		if f == nil {
			in.end("unmodelled", "goxmldsig verifyCertificate not found")
		}
		return in.callFunction(f, []Value{a[0], a[1]}, nil)
	}
	intrinsics["vCertRaw"] = func(in *Interp, fn *ssa.Function, a []Value) Value {
		p, _ := a[0].(*Ptr)
		if p == nil {
			return &SliceV{}
		}
		ct := derefType(fn.Signature.Params().At(0).Type())
		return in.load(p).(*StructV).F[fieldIndex(ct, "Raw")]
	}
	intrinsics["vStripWS"] = func(in *Interp, fn *ssa.Function, a []Value) Value {
		return smt.UF("regexp_replace_all", []string{"String"}, &smt.Term{K: smt.KStr}, termArg(in, a[0]))
	}
}
