package sx

import (
	"fmt"
	"go/constant"
	"go/token"
	"go/types"
	"sort"
	"strings"

	"verif/engine/smt"

	"golang.org/x/tools/go/ssa"
)

// pathEnd terminates the current path (not a Go-level panic of the interpreted program).
type pathEnd struct {
	Kind string // "infeasible", "unmodelled", "unwind", "abort", "done", "internal", "stepcap"
	Msg  string
}

// GoPanic is a panic of the interpreted program.
type GoPanic struct {
	V   Value
	Msg string
	At  string
}

type fnInfo struct {
	idx   map[ssa.Value]int
	n     int
	allow int // 0 unknown, 1 interpret, 2 refuse
}

type deferred struct {
	fn   Value
	args []Value
	call *ssa.CallCommon
}

type frame struct {
	fn     *ssa.Function
	env    []Value
	info   *fnInfo
	defers []deferred
	visits map[*ssa.BasicBlock]int
}

type InputRec struct {
	Name string
	Kind string // bool,int,i64,string,bytes,instant,timestr,...
	Term *smt.Term
	// extra terms whose model values are extracted into the counterexample
	Extra map[string]*smt.Term
}

type AssertRec struct {
	ID     string
	Holds  bool // proved on this path (unsat of negation)
	Result smt.Result
	Cex    map[string]interface{}
	Cond   string
}

// Interp executes one path.
type Interp struct {
	P      *Program
	X      *Explorer
	Solver *smt.Solver

	PC        []*smt.Term
	Prefix    []int
	pos       int
	Decisions []int

	globals  map[*ssa.Global]*Object
	initDone map[*ssa.Package]bool
	nextObj  int
	counters map[string]int
	Inputs   []*InputRec
	inputIdx map[string]*InputRec
	Steps    int64
	depth    int

	Unwind   int
	StepCap  int64
	lenient  int // >0 while running dependency package inits: unmodelled calls yield opaque values
	Notes    []string
	Events   []string // ghost trace (models append)
	Ghost    map[string]interface{}
	curInstr ssa.Instruction
	curFn    *ssa.Function

	FnSteps map[*ssa.Function]int64
}

func (p *Program) info(fn *ssa.Function) *fnInfo {
	// Only called under Explorer lock-free assumption: fnInfo is computed eagerly per function
	// before exploration for all functions reachable; fall back to per-interp cache otherwise.
	fi := &fnInfo{idx: map[ssa.Value]int{}}
	n := 0
	for _, p := range fn.Params {
		fi.idx[p] = n
		n++
	}
	for _, fv := range fn.FreeVars {
		fi.idx[fv] = n
		n++
	}
	for _, b := range fn.Blocks {
		for _, ins := range b.Instrs {
			if v, ok := ins.(ssa.Value); ok {
				fi.idx[v] = n
				n++
			}
		}
	}
	fi.n = n
	return fi
}

func (in *Interp) end(kind, format string, a ...interface{}) {
	panic(&pathEnd{Kind: kind, Msg: fmt.Sprintf(format, a...)})
}

func (in *Interp) where() string {
	if in.curInstr != nil && in.curFn != nil {
		pos := in.P.Fset.Position(in.curInstr.Pos())
		return fmt.Sprintf("%s (%s)", in.curFn.String(), pos)
	}
	return "?"
}

func (in *Interp) newObject(t types.Type, v Value, label string) *Object {
	in.nextObj++
	return &Object{ID: in.nextObj, V: v, T: t, Label: label}
}

func (in *Interp) fresh(prefix string) string {
	n := in.counters[prefix]
	in.counters[prefix] = n + 1
	if n == 0 {
		return prefix
	}
	return fmt.Sprintf("%s#%d", prefix, n)
}

// symName makes a legal SMT symbol from an input name.
func symName(s string) string {
	var b strings.Builder
	b.WriteString("v_")
	for i := 0; i < len(s); i++ {
		c := s[i]
		if (c >= 'a' && c <= 'z') || (c >= 'A' && c <= 'Z') || (c >= '0' && c <= '9') || c == '_' || c == '.' {
			b.WriteByte(c)
		} else {
			fmt.Fprintf(&b, "_%02x", c)
		}
	}
	return b.String()
}

// ---- path condition & branching ----

func (in *Interp) Assume(c *smt.Term) {
	if c.Const {
		if !c.B {
			in.end("infeasible", "assume false")
		}
		return
	}
	in.PC = append(in.PC, c)
}

// Feasible asks the solver whether pc ∧ extra is satisfiable. Unknown counts as feasible.
// Only the path-condition conjuncts that (transitively) share a variable with extra are sent
// (constraint independence): dropping conjuncts can only turn unsat into sat, i.e. keep an infeasible
// path alive, never lose a feasible one. Assertion queries always use the full path condition.
func (in *Interp) Feasible(extra ...*smt.Term) bool {
	if len(extra) == 0 {
		r, _, _ := in.Solver.Check(in.PC, nil)
		return r != smt.Unsat
	}
	q := in.slice(extra)
	key := ""
	{
		ss := make([]string, len(q))
		for i, t := range q {
			ss[i] = t.S
		}
		sort.Strings(ss)
		key = strings.Join(ss, "\n")
	}
	if v, ok := in.X.feasCache.Load(key); ok {
		return v.(bool)
	}
	r, _, _ := in.Solver.Check(q, nil)
	res := r != smt.Unsat
	if r != smt.Unknown {
		in.X.feasCache.Store(key, res)
	}
	return res
}

func (in *Interp) slice(extra []*smt.Term) []*smt.Term {
	vars := map[string]bool{}
	addVars := func(t *smt.Term) bool {
		added := false
		for _, s := range t.Syms {
			if smt.IsVar(s) && !vars[s] {
				vars[s] = true
				added = true
			}
		}
		return added
	}
	for _, e := range extra {
		addVars(e)
	}
	used := make([]bool, len(in.PC))
	for changed := true; changed; {
		changed = false
		for i, p := range in.PC {
			if used[i] {
				continue
			}
			hit := false
			for _, s := range p.Syms {
				if vars[s] {
					hit = true
					break
				}
			}
			if hit {
				used[i] = true
				if addVars(p) {
					changed = true
				}
			}
		}
	}
	var q []*smt.Term
	for i, p := range in.PC {
		if used[i] {
			q = append(q, p)
		}
	}
	return append(q, extra...)
}

// Branch decides a symbolic condition, forking the exploration when both sides are feasible.
func (in *Interp) Branch(c *smt.Term) bool {
	if c.Const {
		return c.B
	}
	// syntactic shortcut: condition (or its negation) already on the path
	nc := smt.Not(c)
	for _, p := range in.PC {
		if p.S == c.S {
			return true
		}
		if p.S == nc.S {
			return false
		}
	}
	var d int
	if in.pos < len(in.Prefix) {
		d = in.Prefix[in.pos]
	} else if dec, val, both := in.quickDecide(c); dec {
		if both {
			d = 1
			alt := append(append([]int{}, in.Decisions...), 0)
			in.X.push(alt)
		} else if val {
			d = 1
		} else {
			d = 0
		}
	} else if in.freeBoolVar(c) {
		d = 1
		alt := append(append([]int{}, in.Decisions...), 0)
		in.X.push(alt)
	} else {
		t := in.Feasible(c)
		if !t {
			d = 0
		} else if !in.Feasible(nc) {
			d = 1
		} else {
			d = 1
			alt := append(append([]int{}, in.Decisions...), 0)
			in.X.push(alt)
		}
	}
	in.pos++
	in.Decisions = append(in.Decisions, d)
	if d == 1 {
		in.PC = append(in.PC, c)
		return true
	}
	in.PC = append(in.PC, nc)
	return false
}

func isVarTerm(t *smt.Term) bool {
	return t.Op == "" && !t.Const && len(t.Syms) == 1 && t.S == t.Syms[0]
}

// quickDecide decides (dis)equalities between string variables and constants syntactically when the
// variables occur in the path condition only in literals of the form (= x c) / (not (= x c)).
// Returns decided=false whenever it is not certain (the solver is asked then).
//
//	both=true: both outcomes are feasible; otherwise val is the forced outcome.
func (in *Interp) quickDecide(c *smt.Term) (decided, val, both bool) {
	neg := false
	if c.Op == "not" && len(c.Args) == 1 {
		neg = true
		c = c.Args[0]
	}
	if c.Op != "=" || len(c.Args) != 2 {
		return false, false, false
	}
	a, b := c.Args[0], c.Args[1]
	if a.K != smt.KStr {
		return false, false, false
	}
	if !isVarTerm(a) {
		a, b = b, a
	}
	if !isVarTerm(a) || !(b.Const || isVarTerm(b)) {
		return false, false, false
	}
	// index the literals on a and b
	type info struct {
		eq    *smt.Term
		neq   []*smt.Term
		other bool
	}
	idx := map[string]*info{a.S: {}}
	if !b.Const {
		if b.S == a.S {
			return false, false, false
		}
		idx[b.S] = &info{}
	}
	for _, p := range in.PC {
		mentions := false
		for _, s := range p.Syms {
			if _, ok := idx[s]; ok {
				mentions = true
			}
		}
		if !mentions {
			continue
		}
		q, n := p, false
		if q.Op == "not" && len(q.Args) == 1 {
			q, n = q.Args[0], true
		}
		if q.Op == "=" && len(q.Args) == 2 {
			x, y := q.Args[0], q.Args[1]
			if !isVarTerm(x) {
				x, y = y, x
			}
			if isVarTerm(x) && y.Const {
				if inf, ok := idx[x.S]; ok {
					if n {
						inf.neq = append(inf.neq, y)
					} else {
						inf.eq = y
					}
					continue
				}
			}
		}
		for _, s := range p.Syms {
			if inf, ok := idx[s]; ok {
				inf.other = true
			}
		}
	}
	ia := idx[a.S]
	if ia.other {
		return false, false, false
	}
	decideConst := func(inf *info, k *smt.Term) (bool, bool, bool) {
		if inf.eq != nil {
			return true, inf.eq.Str == k.Str, false
		}
		for _, x := range inf.neq {
			if x.Str == k.Str {
				return true, false, false
			}
		}
		return true, false, true
	}
	var d, v, bth bool
	if b.Const {
		d, v, bth = decideConst(ia, b)
	} else {
		ib := idx[b.S]
		if ib.other {
			return false, false, false
		}
		switch {
		case ia.eq != nil && ib.eq != nil:
			d, v, bth = true, ia.eq.Str == ib.eq.Str, false
		case ia.eq != nil:
			d, v, bth = decideConst(ib, ia.eq)
		case ib.eq != nil:
			d, v, bth = decideConst(ia, ib.eq)
		default:
			d, v, bth = true, false, true
		}
	}
	if !d {
		return false, false, false
	}
	if bth {
		return true, false, true
	}
	if neg {
		v = !v
	}
	return true, v, false
}

// freeBoolVar: c is a bare boolean variable (or its negation) that no path-condition conjunct mentions,
// so both outcomes are feasible without asking the solver.
func (in *Interp) freeBoolVar(c *smt.Term) bool {
	if len(c.Syms) != 1 {
		return false
	}
	name := c.Syms[0]
	if c.S != name && c.S != "(not "+name+")" {
		return false
	}
	for _, p := range in.PC {
		for _, s := range p.Syms {
			if s == name {
				return false
			}
		}
	}
	return true
}

// Choose forks into n concrete alternatives (no solver involved).
func (in *Interp) Choose(n int) int {
	if n <= 1 {
		return 0
	}
	var d int
	if in.pos < len(in.Prefix) {
		d = in.Prefix[in.pos]
	} else {
		d = 0
		for k := n - 1; k >= 1; k-- {
			alt := append(append([]int{}, in.Decisions...), k)
			in.X.push(alt)
		}
	}
	in.pos++
	in.Decisions = append(in.Decisions, d)
	return d
}

// ---- values from SSA operands ----

func (in *Interp) constValue(c *ssa.Const) Value {
	t := c.Type()
	if c.Value == nil {
		return zeroValue(t)
	}
	if b, ok := t.Underlying().(*types.Basic); ok {
		switch {
		case b.Info()&types.IsBoolean != 0:
			return smt.Bool(constant.BoolVal(c.Value))
		case b.Info()&types.IsString != 0:
			return smt.StrLit(constant.StringVal(c.Value))
		case b.Info()&types.IsInteger != 0:
			w, _ := bvWidth(b)
			if i, ok := constant.Int64Val(constant.ToInt(c.Value)); ok {
				return smt.BV(uint64(i), w)
			}
			u, _ := constant.Uint64Val(constant.ToInt(c.Value))
			return smt.BV(u, w)
		case b.Info()&types.IsFloat != 0:
			f, _ := constant.Float64Val(c.Value)
			return &Opaque{T: t, Tag: "float", Data: map[string]interface{}{"f": f}}
		}
	}
	return &Opaque{T: t, Tag: "const:" + c.String()}
}

func (in *Interp) get(fr *frame, v ssa.Value) Value {
	switch x := v.(type) {
	case *ssa.Const:
		return in.constValue(x)
	case *ssa.Global:
		return &Ptr{Obj: in.global(x)}
	case *ssa.Function:
		return &Closure{Fn: x}
	case *ssa.Builtin:
		return &Closure{Name: "builtin:" + x.Name()}
	}
	i, ok := fr.info.idx[v]
	if !ok {
		in.end("internal", "no slot for %s in %s", v.Name(), fr.fn)
	}
	return fr.env[i]
}

func (in *Interp) set(fr *frame, v ssa.Value, val Value) {
	fr.env[fr.info.idx[v]] = val
}

func (in *Interp) global(g *ssa.Global) *Object {
	if o, ok := in.globals[g]; ok {
		return o
	}
	if h, ok := globalHooks[g.Pkg.Pkg.Path()+"."+g.Name()]; ok {
		et := g.Type().(*types.Pointer).Elem()
		o := in.newObject(et, h(in), "global "+g.String())
		in.globals[g] = o
		return o
	}
	pkg := g.Pkg
	if !in.initDone[pkg] {
		in.initDone[pkg] = true
		// allocate all globals of the package, then run its init
		for _, m := range pkg.Members {
			if gg, ok := m.(*ssa.Global); ok {
				if _, done := in.globals[gg]; !done {
					et := gg.Type().(*types.Pointer).Elem()
					in.globals[gg] = in.newObject(et, zeroValue(et), "global "+gg.String())
				}
			}
		}
		in.runInit(pkg)
	}
	if o, ok := in.globals[g]; ok {
		return o
	}
	et := g.Type().(*types.Pointer).Elem()
	o := in.newObject(et, zeroValue(et), "global "+g.String())
	in.globals[g] = o
	return o
}

func (in *Interp) runInit(pkg *ssa.Package) {
	initFn := pkg.Func("init")
	if initFn == nil || initFn.Blocks == nil {
		return
	}
	if hook, ok := pkgInitHooks[pkg.Pkg.Path()]; ok {
		hook(in, pkg)
		return
	}
	in.lenient++
	savedPC := len(in.PC)
	func() {
		defer func() {
			if r := recover(); r != nil {
				if pe, ok := r.(*pathEnd); ok && (pe.Kind == "unmodelled" || pe.Kind == "internal") {
					in.Notes = append(in.Notes, "init of "+pkg.Pkg.Path()+" stopped: "+pe.Msg)
					return
				}
				if gp, ok := r.(*GoPanic); ok {
					in.Notes = append(in.Notes, "init of "+pkg.Pkg.Path()+" panicked: "+gp.Msg)
					return
				}
				panic(r)
			}
		}()
		in.callSSA(initFn, nil)
	}()
	in.PC = in.PC[:savedPC]
	in.lenient--
}

// ---- calls ----

func (in *Interp) allowed(fn *ssa.Function) bool {
	pp := pkgPathOf(fn)
	if pp == "" {
		// synthetic wrappers without package: allow (they just forward)
		return true
	}
	if strings.HasPrefix(pp, in.P.RepoMod) {
		return true
	}
	if interpretPkgs[pp] {
		return true
	}
	if interpretFuncs[fn.String()] {
		return true
	}
	if o := fn.Origin(); o != nil && interpretFuncs[o.String()] {
		return true
	}
	return false
}

func (in *Interp) CallValue(fv Value, args []Value) Value {
	c, ok := fv.(*Closure)
	if !ok || c == nil {
		in.goPanic("call of nil function value")
	}
	if c.Native != nil {
		return c.Native(in, args)
	}
	if c.Fn == nil {
		in.end("internal", "call of builtin as value: %s", c.Name)
	}
	if len(c.Env) > 0 {
		return in.callFunction(c.Fn, args, c.Env)
	}
	return in.callFunction(c.Fn, args, nil)
}

func (in *Interp) callFunction(fn *ssa.Function, args []Value, env []Value) Value {
	name := fn.String()
	if m, ok := models[name]; ok {
		return m(in, fn, args)
	}
	if o := fn.Origin(); o != nil {
		if m, ok := models[o.String()]; ok {
			return m(in, fn, args)
		}
	}
	if fn.Blocks == nil {
		if fn.Pkg == in.P.Root && strings.HasPrefix(fn.Name(), "v") {
			if ix, ok := intrinsics[fn.Name()]; ok {
				return ix(in, fn, args)
			}
		}
		return in.unmodelled(fn, args)
	}
	if !in.allowed(fn) {
		return in.unmodelled(fn, args)
	}
	return in.callSSAEnv(fn, args, env)
}

func (in *Interp) unmodelled(fn *ssa.Function, args []Value) Value {
	if in.lenient > 0 {
		res := fn.Signature.Results()
		switch res.Len() {
		case 0:
			return nil
		case 1:
			return in.opaqueOf(res.At(0).Type(), "unmodelled:"+fn.String())
		default:
			t := make(Tuple, res.Len())
			for i := range t {
				t[i] = in.opaqueOf(res.At(i).Type(), "unmodelled:"+fn.String())
			}
			return t
		}
	}
	in.end("unmodelled", "UNMODELLED %s called from %s", fn.String(), in.where())
	return nil
}

// opaqueOf builds a placeholder of the given type for lenient (init-time) execution.
func (in *Interp) opaqueOf(t types.Type, tag string) Value {
	switch u := t.Underlying().(type) {
	case *types.Pointer:
		o := in.newObject(u.Elem(), &Opaque{T: u.Elem(), Tag: tag}, tag)
		return &Ptr{Obj: o}
	case *types.Interface:
		o := in.newObject(t, &Opaque{T: t, Tag: tag}, tag)
		return &Iface{T: types.NewPointer(t), V: &Ptr{Obj: o}}
	case *types.Basic, *types.Struct, *types.Array:
		return zeroValue(t)
	}
	return zeroValue(t)
}

func (in *Interp) callSSA(fn *ssa.Function, args []Value) Value {
	return in.callSSAEnv(fn, args, nil)
}

func (in *Interp) callSSAEnv(fn *ssa.Function, args []Value, env []Value) (ret Value) {
	fi := in.X.fnInfo(fn)
	fr := &frame{fn: fn, info: fi, env: make([]Value, fi.n)}
	if len(args) != len(fn.Params) {
		in.end("internal", "arity mismatch calling %s: %d args, %d params", fn, len(args), len(fn.Params))
	}
	for i, p := range fn.Params {
		fr.env[fi.idx[p]] = args[i]
	}
	for i, fv := range fn.FreeVars {
		fr.env[fi.idx[fv]] = env[i]
	}
	in.depth++
	if in.depth > 400 {
		in.end("unwind", "call depth > 400 at %s", fn)
	}
	savedFn, savedInstr := in.curFn, in.curInstr
	defer func() {
		in.depth--
		in.curFn, in.curInstr = savedFn, savedInstr
		if r := recover(); r != nil {
			if gp, ok := r.(*GoPanic); ok && len(fr.defers) > 0 {
				// run deferred calls while panicking (no recover support)
				in.runDefers(fr)
				panic(gp)
			}
			panic(r)
		}
	}()
	return in.run(fr)
}

func (in *Interp) runDefers(fr *frame) {
	for len(fr.defers) > 0 {
		d := fr.defers[len(fr.defers)-1]
		fr.defers = fr.defers[:len(fr.defers)-1]
		in.invoke(fr, d.call, d.fn, d.args)
	}
}

func (in *Interp) goPanic(format string, a ...interface{}) {
	msg := fmt.Sprintf(format, a...)
	panic(&GoPanic{Msg: msg, At: in.where()})
}

// prepareCall evaluates callee and arguments of a call instruction.
func (in *Interp) prepareCall(fr *frame, c *ssa.CallCommon) (Value, []Value) {
	var args []Value
	if c.IsInvoke() {
		recv := in.get(fr, c.Value)
		args = append(args, recv)
		for _, a := range c.Args {
			args = append(args, in.get(fr, a))
		}
		return nil, args
	}
	for _, a := range c.Args {
		args = append(args, in.get(fr, a))
	}
	switch f := c.Value.(type) {
	case *ssa.Builtin:
		return &Closure{Name: "builtin:" + f.Name()}, args
	case *ssa.Function:
		return &Closure{Fn: f}, args
	}
	return in.get(fr, c.Value), args
}

func (in *Interp) invoke(fr *frame, c *ssa.CallCommon, fv Value, args []Value) Value {
	if c.IsInvoke() {
		recv, ok := args[0].(*Iface)
		if !ok || recv == nil || recv.T == nil {
			in.goPanic("nil interface method call %s", c.Method.Name())
		}
		// model on interface method by dynamic type?
		key := "invoke:" + types.TypeString(recv.T, nil) + "." + c.Method.Name()
		if m, ok := models[key]; ok {
			return m(in, nil, append([]Value{recv.V}, args[1:]...))
		}
		if g := ghostOf(recv); g != nil {
			if gm, ok := ghostMethods[ghostKind(g)+"."+c.Method.Name()]; ok {
				return gm(in, g, args[1:])
			}
			in.end("unmodelled", "UNMODELLED method %s on model object %s at %s", c.Method.Name(), ghostKind(g), in.where())
		}
		if op, ok := recv.V.(*Opaque); ok && op != nil {
			return in.opaqueMethod(recv, c.Method, args[1:])
		}
		if pp, ok := recv.V.(*Ptr); ok && pp != nil && pp.Obj != nil {
			if _, isOp := pp.Obj.V.(*Opaque); isOp && len(pp.Path) == 0 {
				return in.opaqueMethod(recv, c.Method, args[1:])
			}
		}
		fn := in.lookupMethod(recv.T, c.Method)
		if fn == nil {
			in.end("unmodelled", "UNMODELLED method %s on dynamic type %s at %s", c.Method.Name(), recv.T, in.where())
		}
		return in.callFunction(fn, append([]Value{recv.V}, args[1:]...), nil)
	}
	cl, ok := fv.(*Closure)
	if !ok || cl == nil {
		in.goPanic("call of nil function")
	}
	if strings.HasPrefix(cl.Name, "builtin:") {
		return in.builtin(fr, c, cl.Name[8:], args)
	}
	return in.CallValue(cl, args)
}

func (in *Interp) lookupMethod(t types.Type, m *types.Func) (fn *ssa.Function) {
	defer func() {
		if r := recover(); r != nil {
			fn = nil
		}
	}()
	return in.P.Prog.LookupMethod(t, m.Pkg(), m.Name())
}

func (in *Interp) opaqueMethod(recv *Iface, m *types.Func, args []Value) Value {
	key := "opaque:" + m.Name()
	if md, ok := models[key]; ok {
		return md(in, nil, append([]Value{recv}, args...))
	}
	if in.lenient > 0 {
		sig := m.Type().(*types.Signature)
		if sig.Results().Len() == 1 {
			return in.opaqueOf(sig.Results().At(0).Type(), "opaque-result")
		}
		return nil
	}
	in.end("unmodelled", "UNMODELLED method %s on opaque value at %s", m.Name(), in.where())
	return nil
}

// ---- the main loop ----

func (in *Interp) run(fr *frame) Value {
	fn := fr.fn
	in.curFn = fn
	startSteps := in.Steps
	defer func() { in.FnSteps[fn] += in.Steps - startSteps }()
	if len(fn.Blocks) == 0 {
		in.end("internal", "no body: %s", fn)
	}
	b := fn.Blocks[0]
	var prev *ssa.BasicBlock
	for {
		if fr.visits == nil {
			fr.visits = map[*ssa.BasicBlock]int{}
		}
		fr.visits[b]++
		if fr.visits[b] > in.Unwind {
			in.end("unwind", "unwinding bound %d exceeded in %s block %d", in.Unwind, fn, b.Index)
		}
		// phis (simultaneous assignment)
		nphi := 0
		for _, ins := range b.Instrs {
			if _, ok := ins.(*ssa.Phi); ok {
				nphi++
			} else {
				break
			}
		}
		if nphi > 0 {
			pi := -1
			for i, p := range b.Preds {
				if p == prev {
					pi = i
					break
				}
			}
			vals := make([]Value, nphi)
			for k := 0; k < nphi; k++ {
				phi := b.Instrs[k].(*ssa.Phi)
				vals[k] = in.get(fr, phi.Edges[pi])
			}
			for k := 0; k < nphi; k++ {
				in.set(fr, b.Instrs[k].(*ssa.Phi), vals[k])
			}
		}
		var next *ssa.BasicBlock
		for _, ins := range b.Instrs[nphi:] {
			in.Steps++
			if in.Steps > in.StepCap {
				in.end("stepcap", "step cap %d exceeded in %s", in.StepCap, fn)
			}
			in.curInstr = ins
			in.curFn = fn
			switch i := ins.(type) {
			case *ssa.DebugRef:
			case *ssa.Alloc:
				et := i.Type().(*types.Pointer).Elem()
				o := in.newObject(et, zeroValue(et), i.Comment)
				in.set(fr, i, &Ptr{Obj: o})
			case *ssa.BinOp:
				in.set(fr, i, in.binop(i.Op, in.get(fr, i.X), in.get(fr, i.Y), i.X.Type(), i.Y.Type()))
			case *ssa.UnOp:
				in.set(fr, i, in.unop(i, in.get(fr, i.X)))
			case *ssa.Call:
				fv, args := in.prepareCall(fr, &i.Call)
				r := in.invoke(fr, &i.Call, fv, args)
				in.curFn = fn
				in.set(fr, i, r)
			case *ssa.ChangeInterface:
				in.set(fr, i, in.get(fr, i.X))
			case *ssa.ChangeType:
				in.set(fr, i, in.get(fr, i.X))
			case *ssa.Convert:
				in.set(fr, i, in.convert(in.get(fr, i.X), i.X.Type(), i.Type()))
			case *ssa.MultiConvert:
				in.set(fr, i, in.convert(in.get(fr, i.X), i.X.Type(), i.Type()))
			case *ssa.SliceToArrayPointer:
				s := in.get(fr, i.X).(*SliceV)
				if s.Arr == nil {
					in.set(fr, i, nilPtr)
				} else {
					in.end("unmodelled", "SliceToArrayPointer at %s", in.where())
				}
			case *ssa.Defer:
				fv, args := in.prepareCall(fr, &i.Call)
				fr.defers = append(fr.defers, deferred{fn: fv, args: args, call: &i.Call})
			case *ssa.RunDefers:
				in.runDefers(fr)
			case *ssa.Extract:
				in.set(fr, i, in.get(fr, i.Tuple).(Tuple)[i.Index])
			case *ssa.Field:
				sv := in.get(fr, i.X)
				in.set(fr, i, in.fieldOf(sv, i.Field))
			case *ssa.FieldAddr:
				p, _ := in.get(fr, i.X).(*Ptr)
				if p == nil {
					in.goPanic("nil pointer dereference (field %d of %s)", i.Field, i.X.Type())
				}
				in.set(fr, i, p.extend(i.Field))
			case *ssa.Index:
				in.set(fr, i, in.indexValue(in.get(fr, i.X), in.get(fr, i.Index).(*smt.Term), i.X.Type()))
			case *ssa.IndexAddr:
				in.set(fr, i, in.indexAddr(in.get(fr, i.X), in.get(fr, i.Index).(*smt.Term), i.X.Type(), i.Index.Type()))
			case *ssa.Lookup:
				in.set(fr, i, in.lookup(i, in.get(fr, i.X), in.get(fr, i.Index)))
			case *ssa.MakeClosure:
				env := make([]Value, len(i.Bindings))
				for k, bnd := range i.Bindings {
					env[k] = in.get(fr, bnd)
				}
				in.set(fr, i, &Closure{Fn: i.Fn.(*ssa.Function), Env: env})
			case *ssa.MakeInterface:
				in.set(fr, i, &Iface{T: i.X.Type(), V: in.get(fr, i.X)})
			case *ssa.MakeMap:
				mt := i.Type().Underlying().(*types.Map)
				in.nextObj++
				in.set(fr, i, &MapObj{ID: in.nextObj, KT: mt.Key(), VT: mt.Elem()})
			case *ssa.MakeSlice:
				in.set(fr, i, in.makeSlice(i, in.get(fr, i.Len).(*smt.Term), in.get(fr, i.Cap).(*smt.Term)))
			case *ssa.MapUpdate:
				in.mapUpdate(in.get(fr, i.Map), in.get(fr, i.Key), in.get(fr, i.Value))
			case *ssa.Range:
				in.set(fr, i, in.makeRange(in.get(fr, i.X), i.X.Type()))
			case *ssa.Next:
				in.set(fr, i, in.rangeNext(in.get(fr, i.Iter), i))
			case *ssa.Slice:
				in.set(fr, i, in.sliceOp(fr, i))
			case *ssa.Store:
				in.store(in.get(fr, i.Addr), in.get(fr, i.Val))
			case *ssa.TypeAssert:
				in.set(fr, i, in.typeAssert(i, in.get(fr, i.X)))
			case *ssa.MakeChan:
				sz := in.get(fr, i.Size).(*smt.Term)
				if !sz.Const || sz.SInt() < 0 || sz.SInt() > 1<<16 {
					in.end("unmodelled", "make(chan) with a symbolic or huge capacity at %s", in.where())
				}
				o := in.newObject(i.Type(), &ChanV{Cap: int(sz.SInt())}, "chan")
				in.set(fr, i, &Ptr{Obj: o})
			case *ssa.Send:
				ch := in.chanOf(in.get(fr, i.Chan))
				if !in.chanSend(ch, in.get(fr, i.X)) {
					in.end("unmodelled", "send on a full channel would block for ever in a single-threaded run at %s", in.where())
				}
			case *ssa.Select:
				in.set(fr, i, in.selectOp(fr, i))
			case *ssa.Go:
				in.end("unmodelled", "UNMODELLED concurrency instruction %T at %s", ins, in.where())
			case *ssa.Panic:
				v := in.get(fr, i.X)
				panic(&GoPanic{V: v, Msg: "explicit panic: " + describe(v), At: in.where()})
			case *ssa.Jump:
				next = b.Succs[0]
			case *ssa.If:
				c := in.get(fr, i.Cond).(*smt.Term)
				if in.Branch(c) {
					next = b.Succs[0]
				} else {
					next = b.Succs[1]
				}
			case *ssa.Return:
				var rv Value
				switch len(i.Results) {
				case 0:
					rv = nil
				case 1:
					rv = in.get(fr, i.Results[0])
				default:
					t := make(Tuple, len(i.Results))
					for k, r := range i.Results {
						t[k] = in.get(fr, r)
					}
					rv = t
				}
				return rv
			default:
				in.end("unmodelled", "UNMODELLED instruction %T at %s", ins, in.where())
			}
		}
		if next == nil {
			in.end("internal", "block fell through in %s", fn)
		}
		prev, b = b, next
	}
}

func (in *Interp) fieldOf(sv Value, idx int) Value {
	switch s := sv.(type) {
	case *StructV:
		return s.F[idx]
	case *TimeV:
		in.end("unmodelled", "field access into time.Time at %s", in.where())
	case *Opaque:
		in.end("unmodelled", "field access into opaque %s at %s", s.Tag, in.where())
	}
	in.end("internal", "Field on %T", sv)
	return nil
}

// ---- memory ----

func (in *Interp) load(pv Value) Value {
	p, _ := pv.(*Ptr)
	if p == nil {
		in.goPanic("nil pointer dereference (load)")
	}
	if p.SB != nil {
		return in.sbRead(p.SB, p.Idx)
	}
	if in.Ghost["ctrace"] != nil {
		in.traceAccess("R", p)
	}
	if op, ok := p.Obj.V.(*Opaque); ok && len(p.Path) > 0 {
		if in.lenient > 0 {
			return &Opaque{T: nil, Tag: "field-of-" + op.Tag}
		}
		in.end("unmodelled", "load through opaque object %s at %s", op.Tag, in.where())
	}
	return getPath(p.Obj.V, p.Path)
}

func (in *Interp) store(pv Value, v Value) {
	p, _ := pv.(*Ptr)
	if p == nil {
		in.goPanic("nil pointer dereference (store)")
	}
	if p.SB != nil {
		in.sbWrite(p.SB, p.Idx, v.(*smt.Term))
		return
	}
	if _, ok := p.Obj.V.(*Opaque); ok && len(p.Path) > 0 {
		if in.lenient > 0 {
			return
		}
		in.end("unmodelled", "store through opaque object at %s", in.where())
	}
	in.X.noteStore(in, p)
	if on, _ := in.Ghost["globalwrites.on"].(bool); on && in.lenient == 0 && strings.HasPrefix(p.Obj.Label, "global ") && strings.Contains(p.Obj.Label, in.P.RepoMod) {
		in.Ghost["globalwrites"] = intGhost(in, "globalwrites") + 1
		in.event("write to package-level variable %s", p.Obj.Label)
	}
	if in.Ghost["ctrace"] != nil {
		in.traceAccess("W", p)
	}
	if w, _ := in.Ghost["watch.obj"].(*Object); w != nil && w == p.Obj {
		l, _ := in.Ghost["watch.writes"].([][]int)
		in.Ghost["watch.writes"] = append(l, append([]int{}, p.Path...))
	}
	p.Obj.V = setPath(p.Obj.V, p.Path, v)
}

func (in *Interp) unop(i *ssa.UnOp, x Value) Value {
	switch i.Op {
	case token.MUL:
		return in.load(x)
	case token.NOT:
		return smt.Not(x.(*smt.Term))
	case token.SUB:
		if t, ok := x.(*smt.Term); ok {
			return smt.BVNeg(t)
		}
	case token.XOR:
		if t, ok := x.(*smt.Term); ok {
			return smt.BVNot(t)
		}
	case token.ARROW:
		ch := in.chanOf(x)
		v, ok := in.chanRecv(ch, i.Type(), i.CommaOk)
		if !ok {
			in.end("unmodelled", "receive from an empty channel would block for ever in a single-threaded run at %s", in.where())
		}
		return v
	}
	in.end("unmodelled", "UNMODELLED unary op %s on %T at %s", i.Op, x, in.where())
	return nil
}

func (in *Interp) typeAssert(i *ssa.TypeAssert, x Value) Value {
	ifc, _ := x.(*Iface)
	ok := false
	var res Value
	if ifc != nil && ifc.T != nil {
		if types.IsInterface(i.AssertedType) {
			it := i.AssertedType.Underlying().(*types.Interface)
			if types.Implements(ifc.T, it) {
				ok = true
				res = ifc
			}
		} else if types.Identical(ifc.T, i.AssertedType) {
			ok = true
			res = ifc.V
		}
	}
	if i.CommaOk {
		if !ok {
			res = zeroValue(i.AssertedType)
		}
		return Tuple{res, smt.Bool(ok)}
	}
	if !ok {
		dyn := "nil"
		if ifc != nil && ifc.T != nil {
			dyn = ifc.T.String()
		}
		in.goPanic("interface conversion: %s is %s, not %s", i.X.Type(), dyn, i.AssertedType)
	}
	return res
}

// ---- channels (single-threaded semantics: buffered FIFO; anything that would block ends the path) ----

func (in *Interp) chanOf(v Value) *ChanV {
	p, _ := v.(*Ptr)
	if p == nil {
		in.end("unmodelled", "operation on a nil channel blocks for ever at %s", in.where())
	}
	c, ok := p.Obj.V.(*ChanV)
	if !ok {
		in.end("internal", "channel operation on %T", p.Obj.V)
	}
	return c
}

func (in *Interp) chanSend(c *ChanV, v Value) bool {
	if c.Closed {
		in.goPanic("send on closed channel")
	}
	if len(c.Buf) >= c.Cap {
		return false
	}
	c.Buf = append(append([]Value{}, c.Buf...), v)
	if p, ok := v.(*Ptr); ok && p != nil {
		// the object now belongs to whoever receives it next (free lists built on buffered channels)
		in.Ghost["poolreleased:"+ptrKey(p)] = true
	}
	return true
}

func (in *Interp) chanRecv(c *ChanV, t types.Type, commaOk bool) (Value, bool) {
	elem := t
	if commaOk {
		elem = t.(*types.Tuple).At(0).Type()
	}
	var v Value
	okv := smt.True
	switch {
	case len(c.Buf) > 0:
		v = c.Buf[0]
		c.Buf = append([]Value{}, c.Buf[1:]...)
		if p, ok := v.(*Ptr); ok && p != nil {
			delete(in.Ghost, "poolreleased:"+ptrKey(p))
		}
	case c.Closed:
		v, okv = zeroValue(elem), smt.False
	default:
		return nil, false
	}
	if commaOk {
		return Tuple{v, okv}, true
	}
	return v, true
}

// selectOp: the first ready case in source order (Go picks any ready case; the order is fixed here), the default
// case when none is ready, a dead end when there is no default.
func (in *Interp) selectOp(fr *frame, i *ssa.Select) Value {
	res := make(Tuple, 2+0)
	idx := -1
	var recvVal Value
	recvOK := smt.False
	for k, st := range i.States {
		c := in.chanOf(in.get(fr, st.Chan))
		if st.Dir == types.SendOnly {
			if len(c.Buf) < c.Cap && !c.Closed {
				in.chanSend(c, in.get(fr, st.Send))
				idx = k
				break
			}
			continue
		}
		if len(c.Buf) > 0 || c.Closed {
			et := st.Chan.Type().Underlying().(*types.Chan).Elem()
			v, _ := in.chanRecv(c, et, false)
			recvVal, recvOK = v, smt.Bool(!c.Closed || true)
			idx = k
			break
		}
	}
	if idx < 0 && i.Blocking {
		in.end("unmodelled", "select without a ready case blocks for ever in a single-threaded run at %s", in.where())
	}
	// result tuple: (index, recvOk, r_0 ... r_{n-1}) with one r per receive state
	res = Tuple{smt.BV(uint64(int64(idx)), 64), recvOK}
	for k, st := range i.States {
		if st.Dir == types.RecvOnly {
			et := st.Chan.Type().Underlying().(*types.Chan).Elem()
			if k == idx {
				res = append(res, recvVal)
			} else {
				res = append(res, zeroValue(et))
			}
		}
	}
	return res
}
