package sx

import (
	"fmt"
	"io"
	"os"
	"sort"
	"strings"
	"sync"
	"time"

	"verif/engine/smt"

	"golang.org/x/tools/go/ssa"
)

// PathResult summarises one completed path.
type PathResult struct {
	Decisions []int
	End       string // "done", "panic", "infeasible", "unmodelled", "unwind", "stepcap", "internal"
	Msg       string
	Steps     int64
	PCLen     int
}

// Failure is an assertion (or panic obligation) whose negation is satisfiable.
type Failure struct {
	Harness   string
	AssertID  string
	Kind      string // "assert", "panic"
	Msg       string
	Where     string
	Decisions []int
	Inputs    map[string]interface{} // concrete counterexample
	Events    []string
	PC        []string
	Known     string // name of the known finding that explains it ("" if none)
}

type Witness struct {
	Decisions []int
	Label     string
	Inputs    map[string]interface{}
	Events    []string
}

type Explorer struct {
	P                 *Program
	Harness           string
	Fn                *ssa.Function
	Workers           int
	Unwind            int
	StepCap           int64
	MaxPaths          int
	MaxFailures       int
	unmodelledEnds    int
	PanicsAreFailures bool
	QueryLog          io.Writer

	mu            sync.Mutex
	cond          *sync.Cond
	work          [][]int
	active        int
	fnInfos       sync.Map
	feasCache     sync.Map
	Dumps         map[string]string
	Paths         []PathResult
	Failures      []*Failure
	Reached       map[string]*Witness
	ReachedAll    map[string][]*Witness
	ReachWanted   map[string]bool
	AssertsProved map[string]int
	AssertsFailed map[string]int
	Inconclusive  []string
	TotalSteps    int64
	FnSteps       map[string]int64
	Models        map[string]int
	Assumptions   map[string]bool
	StoreViol     []string
	Stopped       bool
	Budget        time.Duration
	Known         []KnownFinding
	KnownHits     map[string]int
	frameCheck    func(in *Interp, p *Ptr)
	onSync        func(in *Interp, kind, op, key string)
}

type KnownFinding struct {
	Property  string `json:"property"`
	Harness   string `json:"harness"`
	AssertID  string `json:"assertion_id"`
	Predicate string `json:"predicate"` // SMT-LIB Bool over input symbols (v_<name>)
	What      string `json:"what"`
	Status    string `json:"status"` // "known" | "fixed"
	Commit    string `json:"commit,omitempty"`
}

func NewExplorer(p *Program, harness string) (*Explorer, error) {
	fn := p.Root.Func(harness)
	if fn == nil {
		return nil, fmt.Errorf("harness %s not found", harness)
	}
	x := &Explorer{P: p, Harness: harness, Fn: fn, Workers: 8, Unwind: 64, StepCap: 5_000_000, MaxPaths: 200000, MaxFailures: 400,
		Reached: map[string]*Witness{}, ReachedAll: map[string][]*Witness{}, ReachWanted: map[string]bool{}, AssertsProved: map[string]int{}, AssertsFailed: map[string]int{},
		FnSteps: map[string]int64{}, Models: map[string]int{}, Assumptions: map[string]bool{}, KnownHits: map[string]int{}}
	x.cond = sync.NewCond(&x.mu)
	return x, nil
}

func (x *Explorer) fnInfo(fn *ssa.Function) *fnInfo {
	if v, ok := x.fnInfos.Load(fn); ok {
		return v.(*fnInfo)
	}
	fi := x.P.info(fn)
	v, _ := x.fnInfos.LoadOrStore(fn, fi)
	return v.(*fnInfo)
}

func (x *Explorer) push(prefix []int) {
	x.mu.Lock()
	x.work = append(x.work, prefix)
	x.cond.Signal()
	x.mu.Unlock()
}

func (x *Explorer) noteStore(in *Interp, p *Ptr) {
	if x.frameCheck != nil {
		x.frameCheck(in, p)
	}
}

func (x *Explorer) Run() {
	x.push(nil)
	if x.Budget > 0 {
		go func() {
			time.Sleep(x.Budget)
			x.mu.Lock()
			if !x.Stopped && (len(x.work) > 0 || x.active > 0) {
				x.Stopped = true
				x.Inconclusive = append(x.Inconclusive, fmt.Sprintf("time budget %s exhausted after %d paths", x.Budget, len(x.Paths)))
			}
			x.cond.Broadcast()
			x.mu.Unlock()
		}()
	}
	var wg sync.WaitGroup
	for w := 0; w < x.Workers; w++ {
		wg.Add(1)
		go func(w int) {
			defer wg.Done()
			solver := smt.NewSolver()
			solver.Log = x.QueryLog
			defer solver.Close()
			for {
				x.mu.Lock()
				for len(x.work) == 0 && x.active > 0 && !x.Stopped {
					x.cond.Wait()
				}
				if x.Stopped || (len(x.work) == 0 && x.active == 0) {
					x.cond.Broadcast()
					x.mu.Unlock()
					return
				}
				// depth-first: take the most recently pushed prefix
				prefix := x.work[len(x.work)-1]
				x.work = x.work[:len(x.work)-1]
				x.active++
				x.mu.Unlock()

				x.runPath(solver, prefix)

				x.mu.Lock()
				x.active--
				if x.unmodelledEnds >= 300 && !x.Stopped {
					// the same unmodelled construct keeps ending the paths: exploring more of them decides nothing
					x.Stopped = true
					x.Inconclusive = append(x.Inconclusive, fmt.Sprintf("exploration stopped after %d paths ended at an unmodelled construct (%d paths explored)", x.unmodelledEnds, len(x.Paths)))
				}
				if len(x.Paths) >= x.MaxPaths {
					x.Stopped = true
					x.Inconclusive = append(x.Inconclusive, fmt.Sprintf("path cap %d reached", x.MaxPaths))
				}
				x.cond.Broadcast()
				x.mu.Unlock()
			}
		}(w)
	}
	wg.Wait()
}

func (x *Explorer) newInterp(solver *smt.Solver, prefix []int) *Interp {
	return &Interp{P: x.P, X: x, Solver: solver, Prefix: prefix,
		globals: map[*ssa.Global]*Object{}, initDone: map[*ssa.Package]bool{}, counters: map[string]int{},
		inputIdx: map[string]*InputRec{}, Unwind: x.Unwind, StepCap: x.StepCap, Ghost: map[string]interface{}{},
		FnSteps: map[*ssa.Function]int64{}}
}

func (x *Explorer) runPath(solver *smt.Solver, prefix []int) {
	in := x.newInterp(solver, prefix)
	res := PathResult{}
	func() {
		defer func() {
			if r := recover(); r != nil {
				switch e := r.(type) {
				case *pathEnd:
					res.End, res.Msg = e.Kind, e.Msg
				case *GoPanic:
					res.End, res.Msg = "panic", e.Msg+" at "+e.At
					in.onPanic(e)
				default:
					res.End = "internal"
					res.Msg = fmt.Sprintf("engine panic: %v at %s", r, in.where())
					if os.Getenv("VX_DEBUG") != "" {
						panic(r)
					}
				}
			}
		}()
		in.callSSA(x.Fn, nil)
		res.End = "done"
	}()
	res.Decisions = in.Decisions
	res.Steps = in.Steps
	res.PCLen = len(in.PC)
	x.mu.Lock()
	defer x.mu.Unlock()
	x.Paths = append(x.Paths, res)
	x.TotalSteps += in.Steps
	for f, n := range in.FnSteps {
		x.FnSteps[f.String()] += n
	}
	if res.End == "unmodelled" {
		x.unmodelledEnds++
	}
	switch res.End {
	case "unmodelled", "unwind", "stepcap", "internal":
		// Only inconclusive when the path is feasible (eager forking guarantees feasibility at the
		// last branch; assumptions added afterwards are checked here).
		x.Inconclusive = append(x.Inconclusive, res.End+": "+res.Msg)
	}
	for _, n := range in.Notes {
		x.Assumptions[n] = true
	}
}

// onPanic: a Go-level panic escaped the harness.
func (in *Interp) onPanic(e *GoPanic) {
	x := in.X
	if !x.PanicsAreFailures {
		return
	}
	// The path is feasible up to the last branch; assumptions after it may have made it infeasible.
	in.reportFailure("panic-free", "panic", e.Msg, e.At, nil)
}

// harnessListed: name occurs in the comma-separated list
func harnessListed(list, name string) bool {
	for _, h := range strings.Split(list, ",") {
		if strings.TrimSpace(h) == name {
			return true
		}
	}
	return false
}

// reportFailure extracts a model for the current path condition (plus extra) and records a Failure.
func (in *Interp) reportFailure(id, kind, msg, where string, extra []*smt.Term) bool {
	x := in.X
	q := append(append([]*smt.Term{}, in.PC...), extra...)
	// known findings: find those attached to this assertion
	var known []KnownFinding
	for _, k := range x.Known {
		if k.Status == "known" && k.AssertID == id && (k.Harness == "" || harnessListed(k.Harness, x.Harness)) {
			known = append(known, k)
		}
	}
	// cheap pre-check on the slice of the path condition that shares variables with the negated assertion:
	// unsat there implies unsat of the full query (a sat answer is re-examined with the full path condition)
	if len(extra) > 0 {
		r0, _, _ := in.Solver.Check(in.slice(extra), nil)
		if r0 == smt.Unsat {
			return false
		}
	}
	want := in.wantTerms()
	// first: residual query excluding known predicates
	resid := append([]*smt.Term{}, q...)
	for _, k := range known {
		resid = append(resid, smt.Not(in.predicateTerm(k.Predicate)))
	}
	r, m, info := in.Solver.Check(resid, want)
	if r == smt.Unsat && len(known) > 0 {
		// all violations here are explained by known findings; confirm that at least one is real (sat)
		r2, m2, _ := in.Solver.Check(q, want)
		if r2 == smt.Sat {
			x.mu.Lock()
			for _, k := range known {
				x.KnownHits[k.What]++
			}
			f := &Failure{Harness: x.Harness, AssertID: id, Kind: kind, Msg: msg, Where: where, Decisions: append([]int{}, in.Decisions...),
				Inputs: in.decodeModel(m2), Events: append([]string{}, in.Events...), Known: known[0].What}
			x.Failures = append(x.Failures, f)
			x.mu.Unlock()
		}
		return false
	}
	if r == smt.Unsat {
		return false
	}
	if r == smt.Unknown {
		x.mu.Lock()
		x.Inconclusive = append(x.Inconclusive, fmt.Sprintf("solver unknown at %s %s (%s)", kind, id, info))
		x.mu.Unlock()
		return false
	}
	f := &Failure{Harness: x.Harness, AssertID: id, Kind: kind, Msg: msg, Where: where, Decisions: append([]int{}, in.Decisions...),
		Inputs: in.decodeModel(m), Events: append([]string{}, in.Events...)}
	for _, p := range q {
		s := p.S
		if len(s) > 300 {
			s = s[:300] + "…"
		}
		f.PC = append(f.PC, s)
	}
	x.mu.Lock()
	x.Failures = append(x.Failures, f)
	x.AssertsFailed[id]++
	if x.MaxFailures > 0 && len(x.Failures) >= x.MaxFailures && !x.Stopped {
		// enough counterexamples to replay: the rest of the space is left unexplored (and said so)
		x.Stopped = true
		x.Inconclusive = append(x.Inconclusive, fmt.Sprintf("exploration stopped after %d failing paths (%d paths explored)", len(x.Failures), len(x.Paths)))
		x.cond.Broadcast()
	}
	x.mu.Unlock()
	return true
}

func (in *Interp) predicateTerm(pred string) *smt.Term {
	// predicate is raw SMT-LIB over declared input symbols; collect symbols by scanning tokens.
	t := &smt.Term{K: smt.KBool, S: pred}
	var syms []string
	for _, tok := range strings.FieldsFunc(pred, func(r rune) bool { return r == '(' || r == ')' || r == ' ' }) {
		if _, ok := smt.DeclOf(tok); ok {
			syms = append(syms, tok)
		}
	}
	sort.Strings(syms)
	t.Syms = syms
	return t
}

func (in *Interp) wantTerms() []*smt.Term {
	var want []*smt.Term
	for _, ir := range in.Inputs {
		if ir.Term != nil {
			want = append(want, ir.Term)
		}
		keys := make([]string, 0, len(ir.Extra))
		for k := range ir.Extra {
			keys = append(keys, k)
		}
		sort.Strings(keys)
		for _, k := range keys {
			want = append(want, ir.Extra[k])
		}
	}
	return want
}

func decodeVal(t *smt.Term, v string) interface{} {
	switch t.K {
	case smt.KBool:
		return smt.ValBool(v)
	case smt.KBV:
		u, _ := smt.ValBV(v)
		if t.W == 64 {
			return fmt.Sprintf("%d", int64(u)) // as decimal string to survive JSON
		}
		return u
	case smt.KStr:
		s, _ := smt.ValStr(v)
		return s
	case smt.KInt:
		i, _ := smt.ValInt(v)
		return i
	}
	return v
}

func (in *Interp) decodeModel(m smt.Model) map[string]interface{} {
	out := map[string]interface{}{}
	for _, ir := range in.Inputs {
		if ir.Term != nil {
			if v, ok := m[ir.Term.S]; ok {
				out[ir.Name] = decodeVal(ir.Term, v)
			}
		}
		for k, t := range ir.Extra {
			if v, ok := m[t.S]; ok {
				out[ir.Name+"."+k] = decodeVal(t, v)
			}
		}
	}
	// concrete fork choices
	for k, v := range in.Ghost {
		if strings.HasPrefix(k, "choice:") {
			out[k[7:]] = v
		}
	}
	return out
}

// ---- summary ----

func lessDecisions(a, b []int) bool {
	for i := 0; i < len(a) && i < len(b); i++ {
		if a[i] != b[i] {
			return a[i] < b[i]
		}
	}
	return len(a) < len(b)
}

// Canonicalise orders failures and witnesses by their decision vectors, so that the representatives
// chosen for replay do not depend on worker scheduling.
func (x *Explorer) Canonicalise() {
	sort.SliceStable(x.Failures, func(i, j int) bool { return lessDecisions(x.Failures[i].Decisions, x.Failures[j].Decisions) })
	for l, ws := range x.ReachedAll {
		sort.SliceStable(ws, func(i, j int) bool { return lessDecisions(ws[i].Decisions, ws[j].Decisions) })
		if len(ws) > 4 {
			ws = ws[:4]
		}
		x.ReachedAll[l] = ws
		if len(ws) > 0 {
			x.Reached[l] = ws[0]
		}
	}
}

func (x *Explorer) Summary() string {
	var b strings.Builder
	ends := map[string]int{}
	for _, p := range x.Paths {
		ends[p.End]++
	}
	fmt.Fprintf(&b, "harness %s: %d paths %v, %d steps, proved=%v failed=%v reach=%d/%d inconclusive=%d",
		x.Harness, len(x.Paths), ends, x.TotalSteps, x.AssertsProved, x.AssertsFailed, len(x.Reached), len(x.ReachWanted), len(x.Inconclusive))
	return b.String()
}

var startTime = time.Now()
