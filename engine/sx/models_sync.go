package sx

import (
	"fmt"

	"verif/engine/smt"

	"golang.org/x/tools/go/ssa"
)

// sync primitives in a single-threaded symbolic run: locks are recorded as events (consumed by the
// happens-before encoder of C17) and are otherwise no-ops; Once and Pool keep ghost state per object.

func ptrKey(v Value) string {
	p, _ := v.(*Ptr)
	if p == nil {
		return "nil"
	}
	return fmt.Sprintf("%d%v", p.Obj.ID, p.Path)
}

func init() {
	for _, m := range []string{"RLock", "RUnlock", "Lock", "Unlock"} {
		m := m
		models["(*sync.RWMutex)."+m] = func(in *Interp, fn *ssa.Function, a []Value) Value {
			if isNilValue(a[0]) {
				in.goPanic("nil *sync.RWMutex")
			}
			in.syncEvent("rw", m, a[0])
			return nil
		}
	}
	for _, m := range []string{"Lock", "Unlock"} {
		m := m
		models["(*sync.Mutex)."+m] = func(in *Interp, fn *ssa.Function, a []Value) Value {
			if isNilValue(a[0]) {
				in.goPanic("nil *sync.Mutex")
			}
			in.syncEvent("mu", m, a[0])
			return nil
		}
	}
	models["(*sync.Mutex).TryLock"] = func(in *Interp, fn *ssa.Function, a []Value) Value {
		in.syncEvent("mu", "Lock", a[0])
		return smt.True
	}
	models["(*sync.Once).Do"] = func(in *Interp, fn *ssa.Function, a []Value) Value {
		k := "once:" + ptrKey(a[0])
		if done, _ := in.Ghost[k].(bool); done {
			return nil
		}
		in.Ghost[k] = true
		in.event("sync.Once first Do")
		in.CallValue(a[1], nil)
		return nil
	}
	// sync.Pool: Get returns the most recently Put value (a legal behaviour that exposes aliasing), else New().
	models["(*sync.Pool).Get"] = func(in *Interp, fn *ssa.Function, a []Value) Value {
		k := "pool:" + ptrKey(a[0])
		items, _ := in.Ghost[k].([]Value)
		if len(items) > 0 {
			v := items[len(items)-1]
			in.Ghost[k] = items[:len(items)-1]
			in.event("sync.Pool.Get reuses a pooled object")
			if ifc, ok := v.(*Iface); ok && ifc != nil {
				delete(in.Ghost, "poolreleased:"+ptrKey(ifc.V))
			}
			return v
		}
		pool := in.load(a[0]).(*StructV)
		// last field of sync.Pool is New func() any
		nf := pool.F[len(pool.F)-1]
		if isNilValue(nf) {
			return &Iface{}
		}
		return in.CallValue(nf, nil)
	}
	models["(*sync.Pool).Put"] = func(in *Interp, fn *ssa.Function, a []Value) Value {
		k := "pool:" + ptrKey(a[0])
		items, _ := in.Ghost[k].([]Value)
		in.Ghost[k] = append(items, a[1])
		// from now on the object belongs to whoever Gets it next: memory handed out from it before must not be used any more
		if ifc, ok := a[1].(*Iface); ok && ifc != nil && ifc.T != nil {
			in.Ghost["poolreleased:"+ptrKey(ifc.V)] = true
		}
		return nil
	}
}

// syncEvent records lock operations for C17.
func (in *Interp) syncEvent(kind, op string, m Value) {
	in.Events = append(in.Events, fmt.Sprintf("sync %s %s %s", kind, op, ptrKey(m)))
	if in.X.onSync != nil {
		in.X.onSync(in, kind, op, ptrKey(m))
	}
}

// sync.Map in a single-threaded symbolic run: an association list per map object; key comparison is Go's ==
// on interface values (branching when it is symbolic).
type syncMapEntry struct{ K, V Value }

// a write into a sync.Map counts as a write to shared (package-level) state for the C17 purity oracle
func (in *Interp) noteGlobalWrite(why string) {
	if on, _ := in.Ghost["globalwrites.on"].(bool); on && in.lenient == 0 {
		in.Ghost["globalwrites"] = intGhost(in, "globalwrites") + 1
		in.event("shared state written: %s", why)
	}
}

func (in *Interp) syncMapFind(mk string, key Value) int {
	es, _ := in.Ghost[mk].([]syncMapEntry)
	for i, e := range es {
		if in.Branch(in.valEq(e.K, key)) {
			return i
		}
	}
	return -1
}

func init() {
	models["(*sync.Map).Load"] = func(in *Interp, fn *ssa.Function, a []Value) Value {
		mk := "syncmap:" + ptrKey(a[0])
		if i := in.syncMapFind(mk, a[1]); i >= 0 {
			return Tuple{in.Ghost[mk].([]syncMapEntry)[i].V, smt.True}
		}
		return Tuple{&Iface{}, smt.False}
	}
	models["(*sync.Map).Store"] = func(in *Interp, fn *ssa.Function, a []Value) Value {
		mk := "syncmap:" + ptrKey(a[0])
		es, _ := in.Ghost[mk].([]syncMapEntry)
		if i := in.syncMapFind(mk, a[1]); i >= 0 {
			ne := append([]syncMapEntry{}, es...)
			ne[i].V = a[2]
			in.Ghost[mk] = ne
			return nil
		}
		in.Ghost[mk] = append(append([]syncMapEntry{}, es...), syncMapEntry{a[1], a[2]})
		in.noteGlobalWrite("sync.Map.Store")
		return nil
	}
	models["(*sync.Map).LoadOrStore"] = func(in *Interp, fn *ssa.Function, a []Value) Value {
		mk := "syncmap:" + ptrKey(a[0])
		es, _ := in.Ghost[mk].([]syncMapEntry)
		if i := in.syncMapFind(mk, a[1]); i >= 0 {
			return Tuple{es[i].V, smt.True}
		}
		in.Ghost[mk] = append(append([]syncMapEntry{}, es...), syncMapEntry{a[1], a[2]})
		in.noteGlobalWrite("sync.Map.LoadOrStore")
		return Tuple{a[2], smt.False}
	}
	models["(*sync.Map).Delete"] = func(in *Interp, fn *ssa.Function, a []Value) Value {
		mk := "syncmap:" + ptrKey(a[0])
		es, _ := in.Ghost[mk].([]syncMapEntry)
		if i := in.syncMapFind(mk, a[1]); i >= 0 {
			ne := append([]syncMapEntry{}, es[:i]...)
			in.Ghost[mk] = append(ne, es[i+1:]...)
		}
		return nil
	}
}

// notePooledView: bytes are being read through a slice that views a buffer already given back to a sync.Pool
func (in *Interp) notePooledView(sb *SymBytes) {
	if sb == nil || sb.Buf == nil || sb.Buf.Ghost == nil {
		return
	}
	key, _ := sb.Buf.Ghost["viewof"].(string)
	if key == "" {
		return
	}
	if rel, _ := in.Ghost["poolreleased:"+key].(bool); rel {
		in.Ghost["pool.use-after-put"] = intGhost(in, "pool.use-after-put") + 1
		in.event("memory of a pooled buffer is read after the buffer was returned to its sync.Pool")
	}
}

func init() {
	intrinsics["vPoolUseAfterPut"] = func(in *Interp, fn *ssa.Function, a []Value) Value {
		return smt.BV(uint64(intGhost(in, "pool.use-after-put")), 64)
	}
	// vConcurrently(n, body): symbolically the body runs once (sequential semantics); the native twin runs it from n
	// goroutines repeatedly so that the race detector can confirm cross-goroutine sharing
	intrinsics["vConcurrently"] = func(in *Interp, fn *ssa.Function, a []Value) Value {
		in.CallValue(a[1], nil)
		return nil
	}
}
