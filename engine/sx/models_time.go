package sx

import (
	"fmt"
	"go/types"
	"hash/fnv"
	"time"

	"verif/engine/smt"

	"golang.org/x/tools/go/ssa"
)

const dsigPkg = "github.com/russellhaering/goxmldsig"

func layoutID(layout string) string {
	if layout == "2006-01-02T15:04:05Z07:00" {
		return "rfc3339"
	}
	h := fnv.New32a()
	h.Write([]byte(layout))
	return fmt.Sprintf("l%08x", h.Sum32())
}

// ParseOK / ParseInst: uninterpreted parse functions of the string, one pair per layout.
func ParseOK(layout string, s *smt.Term) *smt.Term {
	if s.Const {
		_, err := time.Parse(layout, s.Str)
		return smt.Bool(err == nil)
	}
	return smt.UF("tparse_ok_"+layoutID(layout), []string{"String"}, &smt.Term{K: smt.KBool}, s)
}
func ParseInst(layout string, s *smt.Term) *smt.Term {
	if s.Const {
		if t, err := time.Parse(layout, s.Str); err == nil {
			return smt.BV(uint64(t.UnixNano()), 64)
		}
		return smt.BV(0, 64)
	}
	return smt.UF("tparse_ns_"+layoutID(layout), []string{"String"}, &smt.Term{K: smt.KBV, W: 64}, s)
}

// ParseFar: the timestamp denotes an instant outside the int64-nanosecond range (before 1678 or after 2262). The
// model keeps instants as 64-bit nanoseconds: such a timestamp is represented by the saturated value (MinInt64 /
// MaxInt64), which orders correctly against every in-range instant; what UnixNano() returns for it is undefined.
func ParseFar(layout string, s *smt.Term) *smt.Term {
	if s.Const {
		t, err := time.Parse(layout, s.Str)
		return smt.Bool(err == nil && (t.Year() < 1678 || t.Year() > 2261))
	}
	return smt.UF("tparse_far_"+layoutID(layout), []string{"String"}, &smt.Term{K: smt.KBool}, s)
}

// ParseZeroT: the timestamp denotes exactly 0001-01-01T00:00:00Z, Go's zero time.Time (any zone spelling of it).
func ParseZeroT(layout string, s *smt.Term) *smt.Term {
	if s.Const {
		t, err := time.Parse(layout, s.Str)
		return smt.Bool(err == nil && t.IsZero())
	}
	return smt.UF("tparse_zero_"+layoutID(layout), []string{"String"}, &smt.Term{K: smt.KBool}, s)
}

// farAxiom: Far(s) => Inst(s) saturated
func (in *Interp) farAxiom(layout string, s *smt.Term) {
	if s.Const {
		return
	}
	inst := ParseInst(layout, s)
	in.assumeOnce(smt.Implies(ParseFar(layout, s), smt.Or(smt.Eq(inst, smt.BV(1<<63, 64)), smt.Eq(inst, smt.BV(1<<63-1, 64)))))
	// the zero time is a far-past instant
	in.assumeOnce(smt.Implies(ParseZeroT(layout, s), smt.And(ParseFar(layout, s), smt.Eq(inst, smt.BV(1<<63, 64)))))
}

// ParseZ: the parsed value is held in UTC (the string spells its zone as "Z" / +00:00) rather than with a zone offset.
func ParseZ(layout string, s *smt.Term) *smt.Term {
	if s.Const {
		t, err := time.Parse(layout, s.Str)
		return smt.Bool(err == nil && t.Location() == time.UTC)
	}
	return smt.UF("tparse_z_"+layoutID(layout), []string{"String"}, &smt.Term{K: smt.KBool}, s)
}

func (in *Interp) newErrorValue(msg *smt.Term, tag string) Value {
	// *errors.errorString{s: msg}
	ep := in.P.Prog.ImportedPackage("errors")
	if ep == nil {
		in.end("internal", "errors package not loaded")
	}
	et := ep.Type("errorString").Type()
	o := in.newObject(et, &StructV{F: []Value{msg}}, "error:"+tag)
	return &Iface{T: types.NewPointer(et), V: &Ptr{Obj: o}}
}

func (in *Interp) opaqueError(tag string) Value {
	name := in.fresh("errmsg_" + tag)
	return in.newErrorValue(smt.NewVar(symName(name), smt.KStr, 0), tag)
}

func nilError() Value { return &Iface{} }

func timeArg(in *Interp, v Value) *TimeV {
	t, ok := v.(*TimeV)
	if !ok {
		in.end("internal", "expected time.Time value, got %T at %s", v, in.where())
	}
	return t
}

func init() {
	// ---- SP clock / wall clock ----
	models["(*"+dsigPkg+".Clock).Now"] = func(in *Interp, fn *ssa.Function, a []Value) Value {
		p, _ := a[0].(*Ptr)
		if p == nil {
			return in.wallNow("nil *dsig.Clock -> real clock")
		}
		cn, _ := p.Obj.Ghost["clock"].(string)
		if cn == "" {
			in.end("unmodelled", "dsig.Clock not created by vClock at %s", in.where())
		}
		return in.clockNow(cn)
	}
	models["time.Now"] = func(in *Interp, fn *ssa.Function, a []Value) Value {
		return in.wallNow("time.Now")
	}
	intrinsics["vClock"] = func(in *Interp, fn *ssa.Function, a []Value) Value {
		name := constStr(in, a[0], "vClock name")
		ct := fn.Signature.Results().At(0).Type().(*types.Pointer).Elem()
		o := in.newObject(ct, zeroValue(ct), "clock "+name)
		o.Ghost = map[string]interface{}{"clock": name}
		return &Ptr{Obj: o}
	}
	// vClockBetween(name, lo, hi): all readings of the clock lie in [lo, hi] ns (stated bound of a harness)
	intrinsics["vClockBetween"] = func(in *Interp, fn *ssa.Function, a []Value) Value {
		in.Ghost["clockrange:"+constStr(in, a[0], "vClockBetween name")] = [2]*smt.Term{termArg(in, a[1]), termArg(in, a[2])}
		return nil
	}
	intrinsics["vInstant"] = func(in *Interp, fn *ssa.Function, a []Value) Value {
		name := in.fresh(constStr(in, a[0], "vInstant name"))
		t := smt.NewVar(symName(name), smt.KBV, 64)
		in.addInput(name, "instant", t)
		return &TimeV{Inst: t, UTC: smt.True, Clock: "input"}
	}
	// vTimeStr(name): a symbolic timestamp attribute string; ok/instant are uninterpreted functions of it.
	intrinsics["vTimeStr"] = func(in *Interp, fn *ssa.Function, a []Value) Value {
		name := in.fresh(constStr(in, a[0], "vTimeStr name"))
		s := smt.NewVar(symName(name), smt.KStr, 0)
		ir := in.addInput(name, "timestr", s)
		ok := ParseOK("2006-01-02T15:04:05Z07:00", s)
		ir.Extra["ok"] = ok
		ir.Extra["ns"] = ParseInst("2006-01-02T15:04:05Z07:00", s)
		ir.Extra["empty"] = smt.Eq(s, smt.StrLit(""))
		ir.Extra["z"] = ParseZ("2006-01-02T15:04:05Z07:00", s)
		ir.Extra["far"] = ParseFar("2006-01-02T15:04:05Z07:00", s)
		ir.Extra["zero"] = ParseZeroT("2006-01-02T15:04:05Z07:00", s)
		in.farAxiom("2006-01-02T15:04:05Z07:00", s)
		in.Assume(smt.Implies(ok, smt.Not(smt.Eq(s, smt.StrLit("")))))
		return s
	}
	// oracle helpers (specification side)
	intrinsics["vParseOK"] = func(in *Interp, fn *ssa.Function, a []Value) Value {
		return ParseOK("2006-01-02T15:04:05Z07:00", a[0].(*smt.Term))
	}
	intrinsics["vParseNs"] = func(in *Interp, fn *ssa.Function, a []Value) Value {
		return ParseInst("2006-01-02T15:04:05Z07:00", a[0].(*smt.Term))
	}
	intrinsics["vFormatUTC"] = func(in *Interp, fn *ssa.Function, a []Value) Value {
		layout := constStr(in, a[0], "vFormatUTC layout")
		return smt.UF("tformat_"+layoutID(layout), []string{"(_ BitVec 64)", "Bool"}, &smt.Term{K: smt.KStr}, termArg(in, a[1]), smt.True)
	}
	intrinsics["vNs"] = func(in *Interp, fn *ssa.Function, a []Value) Value { return timeArg(in, a[0]).Inst }
	intrinsics["vIsUTC"] = func(in *Interp, fn *ssa.Function, a []Value) Value { return timeArg(in, a[0]).UTC }
	intrinsics["vClockReads"] = func(in *Interp, fn *ssa.Function, a []Value) Value {
		name := constStr(in, a[0], "vClockReads name")
		n, _ := in.Ghost["clockreads:"+name].(int)
		return smt.BV(uint64(n), 64)
	}
	// vClockAt(name, k): instant of the k-th reading (0-based) of the clock; must already have happened.
	intrinsics["vClockAt"] = func(in *Interp, fn *ssa.Function, a []Value) Value {
		name := constStr(in, a[0], "vClockAt name")
		k := in.concreteInt(a[1].(*smt.Term), "vClockAt k")
		t, ok := in.Ghost[fmt.Sprintf("clock:%s:%d", name, k)].(*smt.Term)
		if !ok {
			in.end("internal", "vClockAt(%s,%d): no such reading", name, k)
		}
		return t
	}
	intrinsics["vWallReads"] = func(in *Interp, fn *ssa.Function, a []Value) Value {
		n, _ := in.Ghost["wallreads"].(int)
		return smt.BV(uint64(n), 64)
	}

	// ---- time.Parse ----
	models["time.Parse"] = func(in *Interp, fn *ssa.Function, a []Value) Value {
		lt := a[0].(*smt.Term)
		if !lt.Const {
			in.end("unmodelled", "time.Parse with symbolic layout at %s", in.where())
		}
		s := a[1].(*smt.Term)
		in.event("time.Parse layout=%q", lt.Str)
		ok := ParseOK(lt.Str, s)
		if in.Branch(ok) {
			in.farAxiom(lt.Str, s)
			return Tuple{&TimeV{Inst: ParseInst(lt.Str, s), UTC: ParseZ(lt.Str, s), Clock: "parsed", Far: ParseFar(lt.Str, s), ZeroT: ParseZeroT(lt.Str, s)}, nilError()}
		}
		return Tuple{zeroValue(fn.Signature.Results().At(0).Type()), in.opaqueError("timeparse")}
	}

	// ---- time.Time methods ----
	models["(time.Time).After"] = func(in *Interp, fn *ssa.Function, a []Value) Value {
		x, y := timeArg(in, a[0]), timeArg(in, a[1])
		in.noteCompare(x, y)
		return smt.BVSlt(y.Inst, x.Inst)
	}
	models["(time.Time).Before"] = func(in *Interp, fn *ssa.Function, a []Value) Value {
		x, y := timeArg(in, a[0]), timeArg(in, a[1])
		in.noteCompare(x, y)
		return smt.BVSlt(x.Inst, y.Inst)
	}
	models["(time.Time).Equal"] = func(in *Interp, fn *ssa.Function, a []Value) Value {
		x, y := timeArg(in, a[0]), timeArg(in, a[1])
		in.noteCompare(x, y)
		return smt.Eq(x.Inst, y.Inst)
	}
	models["(time.Time).Compare"] = func(in *Interp, fn *ssa.Function, a []Value) Value {
		x, y := timeArg(in, a[0]), timeArg(in, a[1])
		in.noteCompare(x, y)
		return smt.Ite(smt.BVSlt(x.Inst, y.Inst), smt.BV(^uint64(0), 64), smt.Ite(smt.Eq(x.Inst, y.Inst), smt.BV(0, 64), smt.BV(1, 64)))
	}
	models["(time.Time).IsZero"] = func(in *Interp, fn *ssa.Function, a []Value) Value {
		x := timeArg(in, a[0])
		if x.ZeroT != nil {
			return x.ZeroT
		}
		return smt.Bool(x.IsZero)
	}
	models["(time.Time).UTC"] = func(in *Interp, fn *ssa.Function, a []Value) Value {
		x := timeArg(in, a[0])
		return &TimeV{Inst: x.Inst, UTC: smt.True, IsZero: x.IsZero, Clock: x.Clock}
	}
	models["(time.Time).Local"] = func(in *Interp, fn *ssa.Function, a []Value) Value {
		x := timeArg(in, a[0])
		return &TimeV{Inst: x.Inst, UTC: smt.NewVar(symName(in.fresh("local_is_utc")), smt.KBool, 0), IsZero: x.IsZero, Clock: x.Clock}
	}
	models["(time.Time).Add"] = func(in *Interp, fn *ssa.Function, a []Value) Value {
		x := timeArg(in, a[0])
		d := a[1].(*smt.Term)
		in.event("time.Add d=%s", d.S)
		return &TimeV{Inst: smt.BVAdd(x.Inst, d), UTC: x.UTC, Clock: x.Clock}
	}
	// AddDate(0, 0, days): calendar days in the value's own zone. In UTC that is days*24h; a value held in a zone
	// with daylight saving (the scenarios' non-UTC clock is Europe/Berlin) keeps its wall-clock reading across a
	// change of offset, so the instant moves by days*24h -/+ 1h when a transition lies in between.
	models["(time.Time).AddDate"] = func(in *Interp, fn *ssa.Function, a []Value) Value {
		x := timeArg(in, a[0])
		y, m, d := termArg(in, a[1]), termArg(in, a[2]), termArg(in, a[3])
		if !y.Const || !m.Const || !d.Const || y.U != 0 || m.U != 0 || int64(d.U) < 0 || int64(d.U) > 366 {
			in.end("unmodelled", "time.AddDate(%s, %s, %s): only whole days ahead are modelled, at %s", y.S, m.S, d.S, in.where())
		}
		days := int64(d.U)
		in.event("time.AddDate days=%d", days)
		in.X.noteAssumption("time.AddDate(0,0,n): n*24h for a value held in UTC; for a non-UTC value (Europe/Berlin in the scenarios, EU daylight-saving rule, years 2020..2037) n*24h minus/plus one hour when a spring/autumn transition lies strictly inside the period (the two hours around each boundary are treated as no shift)")
		base := smt.BVAdd(x.Inst, smt.BV(uint64(days*86400_000_000_000), 64))
		if x.UTC.Const && x.UTC.B {
			return &TimeV{Inst: base, UTC: x.UTC, Clock: x.Clock}
		}
		const hour = int64(3600_000_000_000)
		shift := smt.BV(0, 64)
		for yr := 2020; yr <= 2037; yr++ {
			for _, tr := range []struct {
				month time.Month
				delta int64
			}{{time.March, -hour}, {time.October, hour}} {
				t := time.Date(yr, tr.month, 31, 1, 0, 0, 0, time.UTC)
				for t.Weekday() != time.Sunday {
					t = t.AddDate(0, 0, -1)
				}
				T := t.UnixNano()
				lo, hi := T-days*24*hour+2*hour, T-2*hour
				if lo >= hi {
					continue
				}
				inside := smt.And(smt.BVSlt(smt.BV(uint64(lo), 64), x.Inst), smt.BVSlt(x.Inst, smt.BV(uint64(hi), 64)))
				shift = smt.Ite(inside, smt.BV(uint64(tr.delta), 64), shift)
			}
		}
		return &TimeV{Inst: smt.BVAdd(base, smt.Ite(x.UTC, smt.BV(0, 64), shift)), UTC: x.UTC, Clock: x.Clock}
	}
	models["(time.Time).AppendFormat"] = func(in *Interp, fn *ssa.Function, a []Value) Value {
		x := timeArg(in, a[0])
		lt := termArg(in, a[2])
		if !lt.Const {
			in.end("unmodelled", "time.AppendFormat with symbolic layout at %s", in.where())
		}
		f := smt.UF("tformat_"+layoutID(lt.Str), []string{"(_ BitVec 64)", "Bool"}, &smt.Term{K: smt.KStr}, x.Inst, x.UTC)
		return in.appendOp(a[1], in.SymBytesOfStr(f), fn.Signature.Params().At(0).Type())
	}
	models["(time.Time).Sub"] = func(in *Interp, fn *ssa.Function, a []Value) Value {
		x, y := timeArg(in, a[0]), timeArg(in, a[1])
		return smt.BVSub(x.Inst, y.Inst)
	}
	models["(time.Time).UnixNano"] = func(in *Interp, fn *ssa.Function, a []Value) Value {
		x := timeArg(in, a[0])
		if x.Far != nil && !(x.Far.Const && !x.Far.B) {
			// outside 1678..2262 the result of UnixNano is undefined (it wraps): an arbitrary value
			in.X.noteAssumption("time.UnixNano of a timestamp outside the int64-nanosecond range (years 1678..2262): an arbitrary 64-bit value")
			g := smt.NewVar(symName(in.fresh("unixnano_wrapped")), smt.KBV, 64)
			return smt.Ite(x.Far, g, x.Inst)
		}
		return x.Inst
	}
	models["(time.Time).Unix"] = func(in *Interp, fn *ssa.Function, a []Value) Value {
		x := timeArg(in, a[0])
		// floor division by 1e9
		q := smt.BVSDiv(x.Inst, smt.BV(1000000000, 64))
		r := smt.BVSRem(x.Inst, smt.BV(1000000000, 64))
		return smt.Ite(smt.BVSlt(r, smt.BV(0, 64)), smt.BVSub(q, smt.BV(1, 64)), q)
	}
	truncate := func(in *Interp, x *TimeV, d *smt.Term, round bool) Value {
		// Go truncates relative to the zero time; the Unix epoch is a whole number of hours after it,
		// so for d dividing one hour the result equals epoch-based truncation. Other d: unmodelled.
		if !d.Const {
			in.end("unmodelled", "Truncate/Round with symbolic duration at %s", in.where())
		}
		dv := d.SInt()
		if dv <= 0 {
			return x
		}
		if 3600000000000%dv != 0 {
			in.end("unmodelled", "Truncate/Round by %d ns (does not divide 1h) at %s", dv, in.where())
		}
		r := smt.BVSRem(x.Inst, d)
		// mathematical modulo (non-negative)
		m := smt.Ite(smt.BVSlt(r, smt.BV(0, 64)), smt.BVAdd(r, d), r)
		lo := smt.BVSub(x.Inst, m)
		if !round {
			return &TimeV{Inst: lo, UTC: x.UTC, Clock: x.Clock}
		}
		half := smt.BVSlt(smt.BVAdd(m, m), d)
		return &TimeV{Inst: smt.Ite(half, lo, smt.BVAdd(lo, d)), UTC: x.UTC, Clock: x.Clock}
	}
	models["(time.Time).Truncate"] = func(in *Interp, fn *ssa.Function, a []Value) Value {
		return truncate(in, timeArg(in, a[0]), a[1].(*smt.Term), false)
	}
	models["(time.Time).Round"] = func(in *Interp, fn *ssa.Function, a []Value) Value {
		return truncate(in, timeArg(in, a[0]), a[1].(*smt.Term), true)
	}
	models["(time.Time).Format"] = func(in *Interp, fn *ssa.Function, a []Value) Value {
		x := timeArg(in, a[0])
		lt := a[1].(*smt.Term)
		if !lt.Const {
			in.end("unmodelled", "Format with symbolic layout at %s", in.where())
		}
		in.event("time.Format layout=%q", lt.Str)
		return smt.UF("tformat_"+layoutID(lt.Str), []string{"(_ BitVec 64)", "Bool"}, &smt.Term{K: smt.KStr}, x.Inst, x.UTC)
	}
	models["(time.Time).String"] = func(in *Interp, fn *ssa.Function, a []Value) Value {
		x := timeArg(in, a[0])
		return smt.UF("tformat_string", []string{"(_ BitVec 64)", "Bool"}, &smt.Term{K: smt.KStr}, x.Inst, x.UTC)
	}
	models["time.Since"] = func(in *Interp, fn *ssa.Function, a []Value) Value {
		now := in.wallNow("time.Since").(*TimeV)
		return smt.BVSub(now.Inst, timeArg(in, a[0]).Inst)
	}
	models["time.Until"] = func(in *Interp, fn *ssa.Function, a []Value) Value {
		now := in.wallNow("time.Until").(*TimeV)
		return smt.BVSub(timeArg(in, a[0]).Inst, now.Inst)
	}
}

func (in *Interp) noteCompare(x, y *TimeV) {
	in.event("time.compare %s~%s", x.Clock, y.Clock)
}

func (in *Interp) clockNow(name string) Value {
	k, _ := in.Ghost["clockreads:"+name].(int)
	in.Ghost["clockreads:"+name] = k + 1
	iname := fmt.Sprintf("%s.now.%d", name, k)
	t := smt.NewVar(symName(iname), smt.KBV, 64)
	utc := smt.NewVar(symName(iname+".utc"), smt.KBool, 0)
	ir := in.addInput(iname, "instant", t)
	ir.Extra["utc"] = utc
	if k > 0 {
		prev := in.Ghost[fmt.Sprintf("clock:%s:%d", name, k-1)].(*smt.Term)
		in.Assume(smt.BVSle(prev, t))
	}
	if r, ok := in.Ghost["clockrange:"+name].([2]*smt.Term); ok {
		in.Assume(smt.And(smt.BVSle(r[0], t), smt.BVSle(t, r[1])))
	}
	in.Ghost[fmt.Sprintf("clock:%s:%d", name, k)] = t
	in.event("clock %s read #%d", name, k)
	return &TimeV{Inst: t, UTC: utc, Clock: name}
}

func (in *Interp) wallNow(why string) Value {
	k, _ := in.Ghost["wallreads"].(int)
	in.Ghost["wallreads"] = k + 1
	iname := fmt.Sprintf("wall.now.%d", k)
	t := smt.NewVar(symName(iname), smt.KBV, 64)
	in.addInput(iname, "instant", t)
	in.event("WALL clock read (%s)", why)
	return &TimeV{Inst: t, UTC: smt.False, Clock: "wall"}
}
