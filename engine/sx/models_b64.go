package sx

import (
	"verif/engine/smt"

	"golang.org/x/tools/go/ssa"
)

// base64: uninterpreted encode/decode functions per encoding, tied by decode(encode(x)) = x.

func b64Name(in *Interp, enc Value) string {
	g := ghostOf(enc)
	if ghostKind(g) == "b64enc" {
		return g.Ghost["name"].(string)
	}
	in.X.noteAssumption("base64 encoding object of unknown origin treated as StdEncoding")
	return "std"
}

func B64E(name string, x *smt.Term) *smt.Term {
	return smt.UF("b64e_"+name, []string{"String"}, &smt.Term{K: smt.KStr}, x)
}
func B64D(name string, x *smt.Term) *smt.Term {
	return smt.UF("b64d_"+name, []string{"String"}, &smt.Term{K: smt.KStr}, x)
}
func B64OK(name string, x *smt.Term) *smt.Term {
	return smt.UF("b64ok_"+name, []string{"String"}, &smt.Term{K: smt.KBool}, x)
}

const b64AlphabetRe = `(re.* (re.union (re.range "a" "z") (re.range "A" "Z") (re.range "0" "9") (str.to_re "+") (str.to_re "/") (str.to_re "=") (str.to_re "-") (str.to_re "_")))`

func (in *Interp) b64Encode(name string, x *smt.Term) *smt.Term {
	e := B64E(name, x)
	in.assumeOnce(smt.And(B64OK(name, e), smt.Eq(B64D(name, e), x)))
	if in.Ghost["b64.alphabet"] != nil {
		// encoder output consists of base64 alphabet characters only (needed where the text is percent-encoded)
		in.assumeOnce(smt.App(smt.KBool, 0, "str.in_re", e, &smt.Term{K: smt.KBool, S: b64AlphabetRe}))
	}
	return e
}

func init() {
	for gname, short := range map[string]string{"StdEncoding": "std", "RawStdEncoding": "rawstd", "URLEncoding": "url", "RawURLEncoding": "rawurl"} {
		short := short
		globalHooks["encoding/base64."+gname] = func(in *Interp) Value {
			o := in.newGhost("b64enc", map[string]interface{}{"name": short})
			return &Ptr{Obj: o}
		}
	}
	models["(*encoding/base64.Encoding).EncodeToString"] = func(in *Interp, fn *ssa.Function, a []Value) Value {
		name := b64Name(in, a[0])
		in.X.noteAssumption("encoding/base64: EncodeToString/DecodeString are uninterpreted functions with DecodeString(EncodeToString(x)) = x and no error on encoder output; DecodeString may fail on any other string")
		return in.b64Encode(name, in.stringOfBytes(a[1].(*SliceV)))
	}
	models["(*encoding/base64.Encoding).DecodeString"] = func(in *Interp, fn *ssa.Function, a []Value) Value {
		name := b64Name(in, a[0])
		s := termArg(in, a[1])
		in.event("base64.%s.DecodeString", name)
		if s.Const && s.Str == "" {
			return Tuple{&SliceV{}, nilError()}
		}
		if in.Branch(B64OK(name, s)) {
			return Tuple{in.SymBytesOfStr(B64D(name, s)), nilError()}
		}
		return Tuple{&SliceV{}, in.opaqueError("base64")}
	}
	// vBytes(name): symbolic byte string (certificates, keys...)
	intrinsics["vBytes"] = func(in *Interp, fn *ssa.Function, a []Value) Value {
		name := in.fresh(constStr(in, a[0], "vBytes name"))
		s := smt.NewVar(symName(name), smt.KStr, 0)
		ir := in.addInput(name, "bytes", s)
		ir.Extra["len"] = BLen(s)
		sl := in.SymBytesOfStr(s)
		in.Assume(smt.Eq(smt.Eq(BLen(s), smt.BV(0, 64)), smt.Eq(s, smt.StrLit(""))))
		return sl
	}
	intrinsics["vB64Str"] = func(in *Interp, fn *ssa.Function, a []Value) Value {
		name := in.fresh(constStr(in, a[0], "vB64Str name"))
		s := smt.NewVar(symName(name), smt.KStr, 0)
		ir := in.addInput(name, "b64str", s)
		ir.Extra["empty"] = smt.Eq(s, smt.StrLit(""))
		ir.Extra["ok"] = B64OK("std", s)
		ir.Extra["dec"] = B64D("std", s)
		ir.Extra["declen"] = BLen(B64D("std", s))
		return s
	}
	intrinsics["vB64Dec"] = func(in *Interp, fn *ssa.Function, a []Value) Value { return B64D("std", termArg(in, a[0])) }
	intrinsics["vB64"] = func(in *Interp, fn *ssa.Function, a []Value) Value {
		return in.b64Encode("std", in.stringOfBytes(a[0].(*SliceV)))
	}
	intrinsics["vCtxSigner"] = func(in *Interp, fn *ssa.Function, a []Value) Value {
		sv := in.load(a[0]).(*StructV)
		return sv.F[5]
	}
	intrinsics["vCtxCerts"] = func(in *Interp, fn *ssa.Function, a []Value) Value {
		sv := in.load(a[0]).(*StructV)
		return sv.F[6]
	}
	intrinsics["vStr"] = func(in *Interp, fn *ssa.Function, a []Value) Value {
		return in.stringOfBytes(a[0].(*SliceV))
	}
}

func b64Len(kind, name string, n *smt.Term) *smt.Term {
	return smt.UF("b64"+kind+"len_"+name, []string{"(_ BitVec 64)"}, &smt.Term{K: smt.KBV, W: 64}, n)
}

func init() {
	// EncodedLen / DecodedLen: functions of the length only; Encode / Decode fill a caller-made buffer of that size
	models["(*encoding/base64.Encoding).EncodedLen"] = func(in *Interp, fn *ssa.Function, a []Value) Value {
		l := b64Len("e", b64Name(in, a[0]), termArg(in, a[1]))
		in.assumeOnce(smt.And(smt.BVSle(smt.BV(0, 64), l), smt.BVSle(l, smt.BV(1<<40, 64))))
		return l
	}
	models["(*encoding/base64.Encoding).DecodedLen"] = func(in *Interp, fn *ssa.Function, a []Value) Value {
		l := b64Len("d", b64Name(in, a[0]), termArg(in, a[1]))
		in.assumeOnce(smt.And(smt.BVSle(smt.BV(0, 64), l), smt.BVSle(l, smt.BV(1<<40, 64))))
		return l
	}
	models["(*encoding/base64.Encoding).Encode"] = func(in *Interp, fn *ssa.Function, a []Value) Value {
		name := b64Name(in, a[0])
		dst, src := a[1].(*SliceV), a[2].(*SliceV)
		if dst.SB == nil || !(dst.SB.Off.Const && dst.SB.Off.U == 0) {
			in.end("unmodelled", "base64 Encode into a fixed-size or offset buffer at %s", in.where())
		}
		x := in.stringOfBytes(src)
		e := in.b64Encode(name, x)
		in.X.noteAssumption("encoding/base64 Encode(dst, src): dst (made with EncodedLen(len(src))) holds exactly EncodeToString(src)")
		in.assumeOnce(smt.Eq(BLen(e), b64Len("e", name, in.lenOf(src))))
		dst.SB.Buf.Str, dst.SB.Buf.Arr, dst.SB.Buf.Base = e, nil, nil
		return nil
	}
	models["(*encoding/base64.Encoding).Decode"] = func(in *Interp, fn *ssa.Function, a []Value) Value {
		name := b64Name(in, a[0])
		dst, src := a[1].(*SliceV), a[2].(*SliceV)
		if dst.SB == nil || !(dst.SB.Off.Const && dst.SB.Off.U == 0) {
			in.end("unmodelled", "base64 Decode into a fixed-size or offset buffer at %s", in.where())
		}
		s := in.stringOfBytes(src)
		in.event("base64.%s.Decode", name)
		if !in.Branch(B64OK(name, s)) {
			return Tuple{smt.BV(0, 64), in.opaqueError("base64")}
		}
		d := B64D(name, s)
		n := BLen(d)
		in.X.noteAssumption("encoding/base64 Decode(dst, src): the first n bytes of dst are DecodeString(src), n <= DecodedLen(len(src))")
		in.assumeOnce(smt.And(smt.BVSle(smt.BV(0, 64), n), smt.BVSle(n, b64Len("d", name, in.lenOf(src)))))
		dst.SB.Buf.Str, dst.SB.Buf.Arr, dst.SB.Buf.Base = d, nil, nil
		return Tuple{n, nilError()}
	}
	// NewEncoder(enc, w): a WriteCloser that emits EncodeToString(everything written) to w on Close
	models["encoding/base64.NewEncoder"] = func(in *Interp, fn *ssa.Function, a []Value) Value {
		return in.ghostIface("b64writer", map[string]interface{}{"name": b64Name(in, a[0]), "dst": a[1], "pending": smt.StrLit("")})
	}
	ghostMethods["b64writer.Write"] = func(in *Interp, self *Object, a []Value) Value {
		b := a[0].(*SliceV)
		self.Ghost["pending"] = smt.StrConcat(self.Ghost["pending"].(*smt.Term), in.stringOfBytes(b))
		return Tuple{in.lenOf(b), nilError()}
	}
	ghostMethods["b64writer.Close"] = func(in *Interp, self *Object, a []Value) Value {
		dst := self.Ghost["dst"].(Value)
		if ifc, ok := dst.(*Iface); ok {
			dst = ifc.V
		}
		in.bufAppend(dst, in.b64Encode(self.Ghost["name"].(string), self.Ghost["pending"].(*smt.Term)))
		self.Ghost["pending"] = smt.StrLit("")
		return nilError()
	}
}
