package sx

import (
	"fmt"
	"go/types"
	"strings"

	"verif/engine/smt"

	"golang.org/x/tools/go/ssa"
)

// Value is one of:
//
//	*smt.Term   bool / integer (bit-vector of the Go width) / string
//	*Ptr        pointer (nil pointer = (*Ptr)(nil))
//	*StructV    struct value (immutable)
//	*ArrayV     array value (immutable)
//	*SliceV     slice (zero value = nil slice)
//	*Iface      interface value (T == nil: nil interface)
//	*Closure    function value ((*Closure)(nil) = nil func)
//	*MapObj     map (reference; (*MapObj)(nil) = nil map)
//	*TimeV      time.Time (modelled as an instant)
//	Tuple       multiple results
//	*Opaque     value of a type the executor does not look into (dependency internals)
type Value interface{}

type Tuple []Value

type Object struct {
	ID    int
	V     Value
	T     types.Type
	Label string
	// Ghost facts attached by models (e.g. reader kinds, signing contexts).
	Ghost map[string]interface{}
}

type Ptr struct {
	Obj  *Object
	Path []int
	// element of a symbolic byte buffer
	SB  *SymBytes
	Idx *smt.Term
}

type StructV struct{ F []Value }
type ArrayV struct{ E []Value }

type SliceV struct {
	Arr           *Object // backing array object (V is *ArrayV); nil for nil slice / symbolic bytes
	Off, Len, Cap int
	SB            *SymBytes
}

// SymBytes is a []byte whose length and/or content is symbolic.
// Content of the view = bytes [Off, Off+Len) of Buf.
type SymBytes struct {
	Buf           *SymBuf
	Off, Len, Cap *smt.Term // BV64
}

// SymBuf is the shared mutable backing store. Exactly one of Str / Arr is set.
type SymBuf struct {
	Str    *smt.Term // whole-buffer content as an SMT string (immutable content)
	Arr    *smt.Term // whole-buffer content as Array BV64 -> BV8
	Base   *smt.Term // array index 0 corresponds to buffer position Base (nil = 0)
	Origin *smt.Term // the content term the buffer was created from (identity for models)
	Ghost  map[string]interface{}
}

func derefType(t types.Type) types.Type {
	if p, ok := t.Underlying().(*types.Pointer); ok {
		return p.Elem()
	}
	return t
}

type Iface struct {
	T types.Type
	V Value
}

type Closure struct {
	Fn  *ssa.Function
	Env []Value
	// Native is set for model-provided function values.
	Native func(in *Interp, args []Value) Value
	Name   string
}

// ChanV: a buffered channel in a single-threaded run: a FIFO of at most Cap values (held as the value of an
// Object, so that the channel itself is a *Ptr and nil channels are nil pointers).
type ChanV struct {
	Buf    []Value
	Cap    int
	Closed bool
}

type MapEntry struct{ K, V Value }
type MapObj struct {
	ID      int
	KT, VT  types.Type
	Entries []MapEntry
}

// TimeV models time.Time as nanoseconds since the Unix epoch (signed BV64).
type TimeV struct {
	Inst   *smt.Term // BV64 ns
	UTC    *smt.Term // Bool: location is UTC
	IsZero bool      // the zero time.Time (year 1), outside the instant range
	ZeroT  *smt.Term // Bool (parsed values): the timestamp is exactly the zero time.Time; nil = use IsZero
	Far    *smt.Term // Bool: the instant lies outside the int64-nanosecond range (Inst is saturated); nil = false
	Clock  string    // "sp", "wall", "parsed", "cert", "derived", ""
}

type Opaque struct {
	T    types.Type
	Tag  string
	Data map[string]interface{}
}

var nilPtr = (*Ptr)(nil)

func isNilValue(v Value) bool {
	switch x := v.(type) {
	case nil:
		return true
	case *Ptr:
		return x == nil
	case *SliceV:
		return x == nil || (x.Arr == nil && x.SB == nil)
	case *Iface:
		return x == nil || x.T == nil
	case *Closure:
		return x == nil
	case *MapObj:
		return x == nil
	}
	return false
}

func isTimeType(t types.Type) bool {
	n, ok := t.(*types.Named)
	if !ok {
		return false
	}
	o := n.Obj()
	return o.Pkg() != nil && o.Pkg().Path() == "time" && o.Name() == "Time"
}

func isNamed(t types.Type, pkg, name string) bool {
	if p, ok := t.(*types.Pointer); ok {
		t = p.Elem()
	}
	n, ok := t.(*types.Named)
	if !ok {
		return false
	}
	o := n.Obj()
	return o.Pkg() != nil && o.Pkg().Path() == pkg && o.Name() == name
}

func bvWidth(b *types.Basic) (w int, signed bool) {
	switch b.Kind() {
	case types.Int8:
		return 8, true
	case types.Int16:
		return 16, true
	case types.Int32, types.UntypedRune:
		return 32, true
	case types.Int64, types.Int, types.UntypedInt:
		return 64, true
	case types.Uint8:
		return 8, false
	case types.Uint16:
		return 16, false
	case types.Uint32:
		return 32, false
	case types.Uint64, types.Uint, types.Uintptr:
		return 64, false
	}
	return 0, false
}

func zeroValue(t types.Type) Value {
	if isTimeType(t) {
		return &TimeV{Inst: smt.BV(0x8000000000000000, 64), UTC: smt.True, IsZero: true}
	}
	switch u := t.Underlying().(type) {
	case *types.Basic:
		switch {
		case u.Info()&types.IsBoolean != 0:
			return smt.False
		case u.Info()&types.IsString != 0:
			return smt.StrLit("")
		case u.Info()&types.IsInteger != 0:
			w, _ := bvWidth(u)
			return smt.BV(0, w)
		case u.Kind() == types.UnsafePointer:
			return nilPtr
		case u.Info()&types.IsFloat != 0:
			return &Opaque{T: t, Tag: "float0"}
		case u.Kind() == types.UntypedNil:
			return nilPtr
		}
		return &Opaque{T: t, Tag: "basic0"}
	case *types.Pointer:
		return nilPtr
	case *types.Slice:
		return &SliceV{}
	case *types.Map:
		return (*MapObj)(nil)
	case *types.Signature:
		return (*Closure)(nil)
	case *types.Interface:
		return &Iface{}
	case *types.Chan:
		return nilPtr
	case *types.Struct:
		f := make([]Value, u.NumFields())
		for i := range f {
			f[i] = zeroValue(u.Field(i).Type())
		}
		return &StructV{F: f}
	case *types.Array:
		n := int(u.Len())
		e := make([]Value, n)
		if n > 0 {
			z := zeroValue(u.Elem())
			for i := range e {
				e[i] = z
			}
		}
		return &ArrayV{E: e}
	case *types.Tuple:
		tv := make(Tuple, u.Len())
		for i := range tv {
			tv[i] = zeroValue(u.At(i).Type())
		}
		return tv
	}
	return &Opaque{T: t, Tag: "zero?"}
}

// getPath navigates an immutable value tree.
func getPath(v Value, path []int) Value {
	for _, i := range path {
		switch x := v.(type) {
		case *StructV:
			v = x.F[i]
		case *ArrayV:
			v = x.E[i]
		default:
			panic(fmt.Sprintf("getPath: cannot index %T with %d", v, i))
		}
	}
	return v
}

// setPath returns a copy of v with the sub-value at path replaced.
func setPath(v Value, path []int, nv Value) Value {
	if len(path) == 0 {
		return nv
	}
	i := path[0]
	switch x := v.(type) {
	case *StructV:
		f := make([]Value, len(x.F))
		copy(f, x.F)
		f[i] = setPath(x.F[i], path[1:], nv)
		return &StructV{F: f}
	case *ArrayV:
		e := make([]Value, len(x.E))
		copy(e, x.E)
		e[i] = setPath(x.E[i], path[1:], nv)
		return &ArrayV{E: e}
	}
	panic(fmt.Sprintf("setPath: cannot index %T", v))
}

func (p *Ptr) extend(i int) *Ptr {
	np := make([]int, len(p.Path)+1)
	copy(np, p.Path)
	np[len(p.Path)] = i
	return &Ptr{Obj: p.Obj, Path: np}
}

func ptrEqual(a, b *Ptr) bool {
	if a == nil || b == nil {
		return a == nil && b == nil
	}
	if a.SB != nil || b.SB != nil {
		return a.SB == b.SB && a.Idx != nil && b.Idx != nil && a.Idx.S == b.Idx.S
	}
	if a.Obj != b.Obj || len(a.Path) != len(b.Path) {
		return false
	}
	for i := range a.Path {
		if a.Path[i] != b.Path[i] {
			return false
		}
	}
	return true
}

func describe(v Value) string {
	switch x := v.(type) {
	case nil:
		return "<nil>"
	case *smt.Term:
		s := x.S
		if len(s) > 80 {
			s = s[:80] + "…"
		}
		return s
	case *Ptr:
		if x == nil {
			return "nilptr"
		}
		if x.SB != nil {
			return "&symbytes[" + x.Idx.S + "]"
		}
		return fmt.Sprintf("&obj%d%v", x.Obj.ID, x.Path)
	case *StructV:
		var parts []string
		for _, f := range x.F {
			parts = append(parts, describe(f))
		}
		s := "{" + strings.Join(parts, ", ") + "}"
		if len(s) > 200 {
			s = s[:200] + "…}"
		}
		return s
	case *ArrayV:
		return fmt.Sprintf("[%d]array", len(x.E))
	case *SliceV:
		if x.SB != nil {
			return "symbytes(len=" + x.SB.Len.S + ")"
		}
		if x.Arr == nil {
			return "nilslice"
		}
		return fmt.Sprintf("slice(obj%d,%d,%d,%d)", x.Arr.ID, x.Off, x.Len, x.Cap)
	case *Iface:
		if x.T == nil {
			return "nil-iface"
		}
		return "iface(" + x.T.String() + ":" + describe(x.V) + ")"
	case *Closure:
		if x == nil {
			return "nilfunc"
		}
		if x.Fn != nil {
			return "func " + x.Fn.String()
		}
		return "native " + x.Name
	case *MapObj:
		if x == nil {
			return "nilmap"
		}
		return fmt.Sprintf("map#%d(%d)", x.ID, len(x.Entries))
	case *TimeV:
		return "time(" + x.Inst.S + ")"
	case Tuple:
		var parts []string
		for _, f := range x {
			parts = append(parts, describe(f))
		}
		return "(" + strings.Join(parts, ", ") + ")"
	case *Opaque:
		return "opaque:" + x.Tag
	}
	return fmt.Sprintf("%T", v)
}
