package sx

import (
	"fmt"
	"go/types"
	"net/url"
	"regexp"
	"sort"
	"strings"

	"verif/engine/smt"

	"golang.org/x/tools/go/ssa"
)

// ---- growable buffers (strings.Builder, bytes.Buffer): ghost content per object ----

func (in *Interp) bufGet(p Value) *smt.Term {
	t, _ := in.Ghost["buf:"+ptrKey(p)].(*smt.Term)
	if t == nil {
		return smt.StrLit("")
	}
	return t
}
func (in *Interp) bufAppend(p Value, s *smt.Term) {
	in.Ghost["buf:"+ptrKey(p)] = smt.StrConcat(in.bufGet(p), s)
	// slices handed out by Bytes() before a Reset share the buffer's memory: writing now clobbers them
	if stale, _ := in.Ghost["bufstale:"+ptrKey(p)].([]*SliceV); len(stale) > 0 {
		for _, v := range stale {
			k := intGhost(in, "clobbered")
			in.Ghost["clobbered"] = k + 1
			nv := smt.NewVar(symName(fmt.Sprintf("clobbered.%d", k)), smt.KStr, 0)
			v.SB.Buf.Str = nv
			in.event("a slice returned by Buffer.Bytes() was overwritten through its reused buffer")
		}
		in.Ghost["bufstale:"+ptrKey(p)] = []*SliceV(nil)
	}
}

// QEsc: url.QueryEscape. Exact for constants; for symbolic strings an SMT definition that is exact on the
// alphabet [A-Za-z0-9._~-] plus space & = + % (harnesses restrict symbolic relay states to it).
func (in *Interp) QEsc(s *smt.Term) *smt.Term {
	if s.Const {
		return smt.StrLit(url.QueryEscape(s.Str))
	}
	in.X.noteAssumption("net/url.QueryEscape on symbolic strings: uninterpreted function with the lemmas: output contains '+' iff the input contains a space; output contains none of space & = # ?; output empty iff input empty (all true of the real function)")
	q := smt.UF("qesc", []string{"String"}, &smt.Term{K: smt.KStr}, s)
	in.assumeOnce(smt.Eq(smt.StrContains(q, smt.StrLit("+")), smt.StrContains(s, smt.StrLit(" "))))
	in.assumeOnce(smt.And(smt.Not(smt.StrContains(q, smt.StrLit(" "))), smt.Not(smt.StrContains(q, smt.StrLit("&"))), smt.Not(smt.StrContains(q, smt.StrLit("="))),
		smt.Not(smt.StrContains(q, smt.StrLit("#"))), smt.Not(smt.StrContains(q, smt.StrLit("?")))))
	in.assumeOnce(smt.Eq(smt.Eq(q, smt.StrLit("")), smt.Eq(s, smt.StrLit(""))))
	return q
}

var queryAlphabetRe = `(re.* (re.union (re.range "a" "z") (re.range "A" "Z") (re.range "0" "9") (str.to_re ".") (str.to_re "_") (str.to_re "~") (str.to_re "-") (str.to_re " ") (str.to_re "&") (str.to_re "=") (str.to_re "+") (str.to_re "%")))`

type urlGhost struct {
	Base   *smt.Term
	Params [][2]*smt.Term
}

var tmplIf = regexp.MustCompile(`(?s)\{\{\s*if\s+\.([A-Za-z0-9_]+)\s*\}\}(.*?)\{\{\s*end\s*\}\}`)
var tmplAction = regexp.MustCompile(`\{\{\s*\.([A-Za-z0-9_]+)\s*\}\}`)

func init() {
	for _, recv := range []string{"(*strings.Builder)", "(*bytes.Buffer)"} {
		recv := recv
		models[recv+".WriteString"] = func(in *Interp, fn *ssa.Function, a []Value) Value {
			s := termArg(in, a[1])
			in.bufAppend(a[0], s)
			return Tuple{smt.StrLenBV(s), nilError()}
		}
		models[recv+".WriteByte"] = func(in *Interp, fn *ssa.Function, a []Value) Value {
			c := termArg(in, a[1])
			if !c.Const {
				in.end("unmodelled", "WriteByte of a symbolic byte at %s", in.where())
			}
			in.bufAppend(a[0], smt.StrLit(string([]byte{byte(c.U)})))
			return nilError()
		}
		models[recv+".Write"] = func(in *Interp, fn *ssa.Function, a []Value) Value {
			b := a[1].(*SliceV)
			in.bufAppend(a[0], in.stringOfBytes(b))
			return Tuple{in.lenOf(b), nilError()}
		}
		models[recv+".String"] = func(in *Interp, fn *ssa.Function, a []Value) Value {
			if isNilValue(a[0]) {
				return smt.StrLit("<nil>")
			}
			return in.bufGet(a[0])
		}
		models[recv+".Len"] = func(in *Interp, fn *ssa.Function, a []Value) Value {
			c := in.bufGet(a[0])
			if c.Const {
				return smt.BV(uint64(len(c.Str)), 64)
			}
			// a concatenation with a non-empty literal part is non-empty: give the literal length as a lower
			// bound witness (callers only test emptiness: "if buf.Len() > 0")
			if c.Op == "str.++" {
				n := 0
				for _, p := range c.Args {
					if p.Const {
						n += len(p.Str)
					}
				}
				if n > 0 {
					return smt.BV(uint64(n), 64)
				}
			}
			// otherwise the sum of the parts' byte lengths (at least 1 when the content is not empty)
			parts := []*smt.Term{c}
			if c.Op == "str.++" {
				parts = c.Args
			}
			sum := smt.BV(0, 64)
			for _, p := range parts {
				if p.Const {
					sum = smt.BVAdd(sum, smt.BV(uint64(len(p.Str)), 64))
				} else {
					sum = smt.BVAdd(sum, BLen(p))
				}
			}
			return smt.Ite(smt.Eq(c, smt.StrLit("")), smt.BV(0, 64), smt.Ite(smt.BVSlt(sum, smt.BV(1, 64)), smt.BV(1, 64), sum))
		}
		models[recv+".Grow"] = func(in *Interp, fn *ssa.Function, a []Value) Value { return nil }
		// Cap(): some capacity not below the length (allocation policy is not modelled)
		models[recv+".Cap"] = func(in *Interp, fn *ssa.Function, a []Value) Value {
			l := models[recv+".Len"](in, fn, a).(*smt.Term)
			c := smt.NewVar(symName(in.fresh("bufcap")), smt.KBV, 64)
			in.Assume(smt.And(smt.BVSle(l, c), smt.BVSle(c, smt.BV(1<<40, 64))))
			return c
		}
		models[recv+".Reset"] = func(in *Interp, fn *ssa.Function, a []Value) Value {
			in.Ghost["buf:"+ptrKey(a[0])] = smt.StrLit("")
			if views, _ := in.Ghost["bufviews:"+ptrKey(a[0])].([]*SliceV); len(views) > 0 {
				stale, _ := in.Ghost["bufstale:"+ptrKey(a[0])].([]*SliceV)
				in.Ghost["bufstale:"+ptrKey(a[0])] = append(stale, views...)
				in.Ghost["bufviews:"+ptrKey(a[0])] = []*SliceV(nil)
			}
			return nil
		}
	}
	// ReadFrom(r): appends everything r yields (same reader kinds as io.ReadAll)
	models["(*bytes.Buffer).ReadFrom"] = func(in *Interp, fn *ssa.Function, a []Value) Value {
		res := models["io.ReadAll"](in, fn, []Value{a[1]}).(Tuple)
		if ei, _ := res[1].(*Iface); ei != nil && ei.T != nil {
			return Tuple{smt.BV(0, 64), res[1]}
		}
		b := res[0].(*SliceV)
		in.bufAppend(a[0], in.stringOfBytes(b))
		return Tuple{in.lenOf(b), nilError()}
	}
	models["(*bytes.Buffer).Bytes"] = func(in *Interp, fn *ssa.Function, a []Value) Value {
		// the returned slice aliases the buffer: remember which buffer it views
		sl := in.SymBytesOfStr(in.bufGet(a[0]))
		sl.SB.Buf.Ghost = map[string]interface{}{"viewof": ptrKey(a[0]), "version": in.bufGet(a[0]).S}
		views, _ := in.Ghost["bufviews:"+ptrKey(a[0])].([]*SliceV)
		in.Ghost["bufviews:"+ptrKey(a[0])] = append(views, sl)
		return sl
	}

	// ---- compress/flate writer ----
	models["compress/flate.NewWriter"] = func(in *Interp, fn *ssa.Function, a []Value) Value {
		o := in.newGhost("flatewriter", map[string]interface{}{"dst": a[0], "pending": smt.StrLit(""), "closed": false})
		in.X.noteAssumption("compress/flate.Writer: Write only buffers; Close emits deflate(all written bytes) to the destination; inflate(deflate(x)) = x")
		return Tuple{&Ptr{Obj: o}, nilError()}
	}
	models["(*compress/flate.Writer).Write"] = func(in *Interp, fn *ssa.Function, a []Value) Value {
		g := ghostOf(a[0])
		b := a[1].(*SliceV)
		g.Ghost["pending"] = smt.StrConcat(g.Ghost["pending"].(*smt.Term), in.stringOfBytes(b))
		return Tuple{in.lenOf(b), nilError()}
	}
	flush := func(in *Interp, g *Object, final bool) {
		pend := g.Ghost["pending"].(*smt.Term)
		var out *smt.Term
		if final {
			out = smt.UF("deflate", []string{"String"}, &smt.Term{K: smt.KStr}, pend)
			in.assumeOnce(smt.And(smt.Eq(Inflate(out), pend), smt.Not(InflateErr(out))))
		} else {
			out = smt.UF("deflate_partial", []string{"String"}, &smt.Term{K: smt.KStr}, pend)
		}
		dst := g.Ghost["dst"].(Value)
		if ifc, ok := dst.(*Iface); ok {
			dst = ifc.V
		}
		in.bufAppend(dst, out)
		g.Ghost["pending"] = smt.StrLit("")
	}
	models["(*compress/flate.Writer).Close"] = func(in *Interp, fn *ssa.Function, a []Value) Value {
		g := ghostOf(a[0])
		if c, _ := g.Ghost["closed"].(bool); !c {
			g.Ghost["closed"] = true
			flush(in, g, true)
		}
		return nilError()
	}
	models["(*compress/flate.Writer).Flush"] = func(in *Interp, fn *ssa.Function, a []Value) Value {
		flush(in, ghostOf(a[0]), false)
		return nilError()
	}

	// ---- net/url ----
	interpretFuncs["(net/url.Values).Add"] = true
	interpretFuncs["(net/url.Values).Get"] = true
	interpretFuncs["(net/url.Values).Set"] = true
	interpretFuncs["(net/url.Values).Del"] = true
	interpretFuncs["(net/url.Values).Has"] = true
	models["net/url.QueryEscape"] = func(in *Interp, fn *ssa.Function, a []Value) Value {
		return in.QEsc(termArg(in, a[0]))
	}
	models["net/url.Parse"] = func(in *Interp, fn *ssa.Function, a []Value) Value {
		s := termArg(in, a[0])
		ut := derefType(fn.Signature.Results().At(0).Type())
		ug, _ := in.Ghost["url:"+s.S].(*urlGhost)
		if ug == nil {
			// an arbitrary string: what String() gives back is the normalised spelling, an unknown function of the
			// input that is the identity at least on strings without a space (escaping, scheme case, empty
			// fragments are the ways the two differ; only the space is modelled as a difference)
			if s.Const {
				in.end("unmodelled", "url.Parse of a constant string not built by vURL at %s", in.where())
			}
			in.X.noteAssumption("url.Parse(s).String() for a configuration string s: an unknown function urlnorm(s), equal to s when s contains no space")
			norm := smt.UF("urlnorm", []string{"String"}, &smt.Term{K: smt.KStr}, s)
			in.assumeOnce(smt.Implies(smt.Not(smt.StrContains(s, smt.StrLit(" "))), smt.Eq(norm, s)))
			ug = &urlGhost{Base: norm}
			in.Ghost["url:"+s.S] = ug
		}
		if in.Choose(2) == 1 {
			in.Ghost["choice:url.parse.fails"] = 1
			return Tuple{nilPtr, in.opaqueError("url-parse")}
		}
		o := in.newObject(ut, zeroValue(ut), "url")
		o.Ghost = map[string]interface{}{"url": ug}
		return Tuple{&Ptr{Obj: o}, nilError()}
	}
	models["(*net/url.URL).Query"] = func(in *Interp, fn *ssa.Function, a []Value) Value {
		p := a[0].(*Ptr)
		ug, _ := p.Obj.Ghost["url"].(*urlGhost)
		mt := fn.Signature.Results().At(0).Type().Underlying().(*types.Map)
		in.nextObj++
		m := &MapObj{ID: in.nextObj, KT: mt.Key(), VT: mt.Elem()}
		// a RawQuery assigned since parsing (a Values.Encode() result) is what Query() parses now
		ut := derefType(fn.Signature.Recv().Type())
		if rq, _ := in.load(p).(*StructV).F[fieldIndex(ut, "RawQuery")].(*smt.Term); rq != nil && !(rq.Const && rq.Str == "") {
			enc, _ := in.Ghost["urlenc:"+rq.S].([][2]Value)
			if enc == nil {
				in.end("unmodelled", "URL.Query() of a RawQuery that is not a Values.Encode() result at %s", in.where())
			}
			for _, kv := range enc {
				m.Entries = append(m.Entries, MapEntry{K: kv[0], V: kv[1]})
			}
			return m
		}
		if ug != nil {
			for _, kv := range ug.Params {
				et := mt.Elem().Underlying().(*types.Slice).Elem()
				arr := in.newObject(types.NewArray(et, 1), &ArrayV{E: []Value{kv[1]}}, "qv")
				m.Entries = append(m.Entries, MapEntry{K: kv[0], V: &SliceV{Arr: arr, Len: 1, Cap: 1}})
			}
		}
		return m
	}
	models["(net/url.Values).Encode"] = func(in *Interp, fn *ssa.Function, a []Value) Value {
		m, _ := a[0].(*MapObj)
		if m == nil || len(m.Entries) == 0 {
			return smt.StrLit("")
		}
		type kv struct {
			k string
			v []Value
		}
		var es []kv
		for _, e := range m.Entries {
			kt := e.K.(*smt.Term)
			if !kt.Const {
				in.end("unmodelled", "url.Values.Encode with a symbolic key at %s", in.where())
			}
			es = append(es, kv{kt.Str, in.sliceElems(e.V)})
		}
		sort.Slice(es, func(i, j int) bool { return es[i].k < es[j].k })
		var parts []*smt.Term
		for _, e := range es {
			for _, v := range e.v {
				if len(parts) > 0 {
					parts = append(parts, smt.StrLit("&"))
				}
				parts = append(parts, smt.StrLit(url.QueryEscape(e.k)+"="), in.QEsc(v.(*smt.Term)))
			}
		}
		in.X.noteAssumption("net/url.Values.Encode: keys sorted, key=value pairs joined by & with QueryEscape applied to both; parsing such a string back yields the same keys and values")
		out := smt.StrConcat(parts...)
		var back [][2]Value
		for _, e := range es {
			// a copy of the value list (ParseQuery builds fresh slices)
			vs := append([]Value{}, e.v...)
			et := fn.Signature.Recv().Type().Underlying().(*types.Map).Elem().Underlying().(*types.Slice).Elem()
			arr := in.newObject(types.NewArray(et, int64(len(vs))), &ArrayV{E: vs}, "qv")
			back = append(back, [2]Value{smt.StrLit(e.k), &SliceV{Arr: arr, Len: len(vs), Cap: len(vs)}})
		}
		in.Ghost["urlenc:"+out.S] = back
		return out
	}
	models["(*net/url.URL).String"] = func(in *Interp, fn *ssa.Function, a []Value) Value {
		p := a[0].(*Ptr)
		ug, _ := p.Obj.Ghost["url"].(*urlGhost)
		ut := derefType(fn.Signature.Recv().Type())
		rq := in.load(p).(*StructV).F[fieldIndex(ut, "RawQuery")].(*smt.Term)
		if ug == nil {
			in.end("unmodelled", "URL.String on unknown URL")
		}
		if rq.Const && rq.Str == "" {
			return ug.Base
		}
		return smt.StrConcat(ug.Base, smt.StrLit("?"), rq)
	}
	// vURL(name, withParam): an IdP endpoint URL, optionally carrying one pre-existing query parameter "tenant"
	intrinsics["vURL"] = func(in *Interp, fn *ssa.Function, a []Value) Value {
		name := in.fresh(constStr(in, a[0], "vURL name"))
		s := smt.NewVar(symName(name), smt.KStr, 0)
		ir := in.addInput(name, "url", s)
		base := smt.NewVar(symName(name+".base"), smt.KStr, 0)
		ug := &urlGhost{Base: base}
		ir.Extra["base"] = base
		if in.Branch(termArg(in, a[1])) {
			pv := smt.NewVar(symName(name+".tenant"), smt.KStr, 0)
			ir.Extra["tenant"] = pv
			in.Assume(smt.App(smt.KBool, 0, "str.in_re", pv, &smt.Term{K: smt.KBool, S: queryAlphabetRe}))
			ug.Params = append(ug.Params, [2]*smt.Term{smt.StrLit("tenant"), pv})
		}
		in.Ghost["url:"+s.S] = ug
		return s
	}
	intrinsics["vURLBase"] = func(in *Interp, fn *ssa.Function, a []Value) Value {
		ug, _ := in.Ghost["url:"+termArg(in, a[0]).S].(*urlGhost)
		if ug == nil {
			in.end("internal", "vURLBase: unknown url")
		}
		return ug.Base
	}
	intrinsics["vURLTenant"] = func(in *Interp, fn *ssa.Function, a []Value) Value {
		ug, _ := in.Ghost["url:"+termArg(in, a[0]).S].(*urlGhost)
		if ug == nil || len(ug.Params) == 0 {
			return smt.StrLit("")
		}
		return ug.Params[0][1]
	}
	intrinsics["vURLHasTenant"] = func(in *Interp, fn *ssa.Function, a []Value) Value {
		ug, _ := in.Ghost["url:"+termArg(in, a[0]).S].(*urlGhost)
		return smt.Bool(ug != nil && len(ug.Params) > 0)
	}
	intrinsics["vBytesOf"] = func(in *Interp, fn *ssa.Function, a []Value) Value { return in.SymBytesOfStr(termArg(in, a[0])) }
	// vSignatureOf(url): the base64 Signature parameter the most recent SignString call produced ("" if none)
	intrinsics["vSignatureOf"] = func(in *Interp, fn *ssa.Function, a []Value) Value {
		k := intGhost(in, "signstring.calls")
		if k == 0 {
			return smt.StrLit("")
		}
		name := symName(fmt.Sprintf("signature.%d", k-1))
		return in.b64Encode("std", &smt.Term{K: smt.KStr, S: name, Syms: []string{name}})
	}
	// vB64AlphabetAxiom(): from now on base64 encoder outputs are constrained to the base64 alphabet
	intrinsics["vB64AlphabetAxiom"] = func(in *Interp, fn *ssa.Function, a []Value) Value {
		in.Ghost["b64.alphabet"] = true
		return nil
	}
	// vSignedHash(signatureB64): the crypto.Hash the signature was computed with (0 if unknown)
	intrinsics["vSignedHash"] = func(in *Interp, fn *ssa.Function, a []Value) Value {
		sb := termArg(in, a[0])
		for k, v := range in.Ghost {
			if !strings.HasPrefix(k, "signed:") {
				continue
			}
			sigT := &smt.Term{K: smt.KStr, S: k[7:], Syms: []string{k[7:]}}
			if B64E("std", sigT).S == sb.S {
				var h uint64
				fmt.Sscanf(v.(*signedRec).Hash, "hash%d", &h)
				return smt.BV(h, 64)
			}
		}
		return smt.BV(0, 64)
	}
	intrinsics["vSetSignedContent"] = func(in *Interp, fn *ssa.Function, a []Value) Value { return nil }
	intrinsics["vQEsc"] = func(in *Interp, fn *ssa.Function, a []Value) Value { return in.QEsc(termArg(in, a[0])) }
	// vQueryString(name): a symbolic string over the query alphabet (relay states)
	intrinsics["vQueryString"] = func(in *Interp, fn *ssa.Function, a []Value) Value {
		name := in.fresh(constStr(in, a[0], "vQueryString name"))
		s := smt.NewVar(symName(name), smt.KStr, 0)
		in.addInput(name, "string", s)
		in.Assume(smt.App(smt.KBool, 0, "str.in_re", s, &smt.Term{K: smt.KBool, S: queryAlphabetRe}))
		return s
	}
	intrinsics["vDeflated"] = func(in *Interp, fn *ssa.Function, a []Value) Value {
		return smt.UF("deflate", []string{"String"}, &smt.Term{K: smt.KStr}, termArg(in, a[0]))
	}
	models["strings.ReplaceAll"] = func(in *Interp, fn *ssa.Function, a []Value) Value {
		s, o, n := termArg(in, a[0]), termArg(in, a[1]), termArg(in, a[2])
		if s.Const && o.Const && n.Const {
			return smt.StrLit(strings.ReplaceAll(s.Str, o.Str, n.Str))
		}
		return smt.App(smt.KStr, 0, "str.replace_all", s, o, n)
	}
	models["strings.Replace"] = func(in *Interp, fn *ssa.Function, a []Value) Value {
		s, o, n, c := termArg(in, a[0]), termArg(in, a[1]), termArg(in, a[2]), termArg(in, a[3])
		if s.Const && o.Const && n.Const && c.Const {
			return smt.StrLit(strings.Replace(s.Str, o.Str, n.Str, int(c.SInt())))
		}
		if c.Const && c.SInt() < 0 {
			return smt.App(smt.KStr, 0, "str.replace_all", s, o, n)
		}
		if c.Const && c.SInt() == 1 {
			return smt.App(smt.KStr, 0, "str.replace", s, o, n)
		}
		in.end("unmodelled", "strings.Replace with count %s", c.S)
		return nil
	}

	// ---- signing of strings / digests (dsig) ----
	models["(*"+dsigPkg+".SigningContext).SignString"] = func(in *Interp, fn *ssa.Function, a []Value) Value {
		ctx := a[0].(*Ptr)
		content := termArg(in, a[1])
		key, hash, kerr := in.signingKeyOf(ctx, derefType(fn.Signature.Recv().Type()))
		in.event("dsig.SignString key=%s hash=%s", key, hash)
		if kerr {
			return Tuple{&SliceV{}, in.opaqueError("sign-key")}
		}
		k := intGhost(in, "signstring.calls")
		in.Ghost["signstring.calls"] = k + 1
		sig := smt.NewVar(symName(fmt.Sprintf("signature.%d", k)), smt.KStr, 0)
		in.assumeOnce(smt.Not(smt.Eq(sig, smt.StrLit(""))))
		in.Ghost["signed:"+sig.S] = &signedRec{Content: content, Key: key, Hash: hash}
		in.X.noteAssumption("dsig.SigningContext.SignString: returns an opaque signature value; the content, key and hash it was computed with are recorded (verification itself is the dependency's)")
		return Tuple{in.SymBytesOfStr(sig), nilError()}
	}
	// vSigVerifies(signatureB64, content, keyName, hashName): the base64 value is a signature over exactly content
	intrinsics["vSigVerifies"] = func(in *Interp, fn *ssa.Function, a []Value) Value {
		sb := termArg(in, a[0])
		content := termArg(in, a[1])
		key := "nilkey"
		if kp, _ := a[2].(*Ptr); kp != nil {
			key = fmt.Sprintf("key:obj%d", kp.Obj.ID)
		}
		hash := fmt.Sprintf("hash%d", termArg(in, a[3]).U)
		// sb must be b64e(sig) for a recorded signature
		for k, v := range in.Ghost {
			if !strings.HasPrefix(k, "signed:") {
				continue
			}
			rec := v.(*signedRec)
			sigT := &smt.Term{K: smt.KStr, S: k[7:], Syms: []string{k[7:]}}
			if B64E("std", sigT).S == sb.S {
				return smt.And(smt.Eq(rec.Content, content), smt.Bool(rec.Key == key), smt.Bool(rec.Hash == hash))
			}
		}
		return smt.False
	}

	// ---- html/template and text/template ----
	for _, pkg := range []string{"html/template", "text/template"} {
		pkg := pkg
		models[pkg+".New"] = func(in *Interp, fn *ssa.Function, a []Value) Value {
			o := in.newGhost("template", map[string]interface{}{"pkg": pkg, "text": ""})
			return &Ptr{Obj: o}
		}
		models["(*"+pkg+".Template).Parse"] = func(in *Interp, fn *ssa.Function, a []Value) Value {
			g := ghostOf(a[0])
			t := termArg(in, a[1])
			if !t.Const {
				in.end("unmodelled", "template text is not a constant at %s", in.where())
			}
			g.Ghost["text"] = t.Str
			return Tuple{a[0], nilError()}
		}
		models[pkg+".Must"] = func(in *Interp, fn *ssa.Function, a []Value) Value {
			if e, _ := a[1].(*Iface); e != nil && e.T != nil {
				in.goPanic("template.Must: parse error")
			}
			return a[0]
		}
		models["(*"+pkg+".Template).Execute"] = func(in *Interp, fn *ssa.Function, a []Value) Value {
			g := ghostOf(a[0])
			text := g.Ghost["text"].(string)
			data, _ := a[2].(*Iface)
			if data == nil || data.T == nil {
				in.end("unmodelled", "template data nil")
			}
			var sv *StructV
			var mv *MapObj
			st, ok := data.T.Underlying().(*types.Struct)
			if ok {
				sv = data.V.(*StructV)
			} else if pt, isP := data.T.Underlying().(*types.Pointer); isP {
				st = pt.Elem().Underlying().(*types.Struct)
				sv = in.load(data.V).(*StructV)
			} else if mt, isM := data.T.Underlying().(*types.Map); isM && basicOf(mt.Key()) != nil && basicOf(mt.Elem()) != nil {
				mv, _ = data.V.(*MapObj) // map[string]string: .Key looks the key up (missing key renders as empty)
			} else {
				in.end("unmodelled", "template data of type %s", data.T)
			}
			// lookup(field): the value bound to .field, whether its type is a trusted (typed) string, whether it exists
			lookup := func(field string) (*smt.Term, bool, bool) {
				if mv != nil || st == nil {
					if mv != nil {
						for _, e := range mv.Entries {
							if k, _ := e.K.(*smt.Term); k != nil && k.Const && k.Str == field {
								v, _ := e.V.(*smt.Term)
								return v, false, v != nil
							}
						}
					}
					return smt.StrLit(""), false, true
				}
				for i := 0; i < st.NumFields(); i++ {
					if st.Field(i).Name() == field {
						v, isStr := sv.F[i].(*smt.Term)
						if !isStr || v.K != smt.KStr {
							in.end("unmodelled", "template field %s is not a string (type %s) at %s", field, st.Field(i).Type(), in.where())
						}
						_, plain := st.Field(i).Type().(*types.Basic)
						return v, !plain, true
					}
				}
				return nil, false, false
			}
			// {{if .Field}}body{{end}} (no else, not nested): the body is rendered iff the field is a non-empty string
			for {
				m := tmplIf.FindStringSubmatchIndex(text)
				if m == nil {
					break
				}
				v, _, okf := lookup(text[m[2]:m[3]])
				if !okf {
					return in.opaqueError("template-missing-field")
				}
				if in.Branch(smt.Not(smt.Eq(v, smt.StrLit("")))) {
					text = text[:m[0]] + text[m[4]:m[5]] + text[m[1]:]
				} else {
					text = text[:m[0]] + text[m[1]:]
				}
			}
			if strings.Contains(text, "{{if") || strings.Contains(text, "{{range") || strings.Contains(text, "{{with") || strings.Contains(text, "{{else") || strings.Contains(text, "{{end") {
				in.end("unmodelled", "template control structure beyond {{if .Field}}..{{end}} at %s", in.where())
			}
			dst := a[1]
			if ifc, ok := dst.(*Iface); ok {
				dst = ifc.V
			}
			in.X.noteAssumption("html/template: output = literal chunks of the constant template ++ attr_esc(field) for every {{.Field}} action inside a double-quoted attribute value; attr_esc output contains none of \" ' < > and unescapes to the field value (documented contextual auto-escaping); text/template = identity (no escaping)")
			pos := 0
			var segs []tmplSeg
			for _, m := range tmplAction.FindAllStringSubmatchIndex(text, -1) {
				lit := text[pos:m[0]]
				field := text[m[2]:m[3]]
				pos = m[1]
				// typed strings (template.HTML, template.HTMLAttr, template.JS, ...) are trusted by html/template and NOT escaped
				val, trusted, okf := lookup(field)
				if !okf {
					return in.opaqueError("template-missing-field")
				}
				segs = append(segs, tmplSeg{Lit: lit})
				// context: inside a double-quoted attribute value?
				inAttr := strings.Count(lit[strings.LastIndex(lit, "<")+1:], "\"")%2 == 1 && strings.LastIndex(lit, "<") > strings.LastIndex(lit, ">")
				if !inAttr {
					in.end("unmodelled", "template action {{.%s}} outside a double-quoted attribute value: escaping context not modelled at %s", field, in.where())
				}
				if pkg == "html/template" && !trusted {
					segs = append(segs, tmplSeg{Val: val, Field: field, Esc: true})
				} else {
					segs = append(segs, tmplSeg{Val: val, Field: field, Esc: false})
				}
			}
			segs = append(segs, tmplSeg{Lit: text[pos:]})
			var parts []*smt.Term
			for _, s := range segs {
				if s.Val == nil {
					parts = append(parts, smt.StrLit(s.Lit))
				} else if s.Esc {
					parts = append(parts, smt.UF("attr_esc", []string{"String"}, &smt.Term{K: smt.KStr}, s.Val))
				} else {
					parts = append(parts, s.Val)
				}
			}
			out := smt.StrConcat(parts...)
			in.Ghost["tmplout:"+out.S] = segs
			in.bufAppend(dst, out)
			return nilError()
		}
	}
	// vFormField(out, element, nameAttr, valueAttr): value bound to <element ... name=nameAttr ... valueAttr="§"> in the page
	// returns (value, present, escaped)
	intrinsics["vFormField"] = func(in *Interp, fn *ssa.Function, a []Value) Value {
		out := in.stringOfBytes(a[0].(*SliceV))
		segs, _ := in.Ghost["tmplout:"+out.S].([]tmplSeg)
		elem := constStr(in, a[1], "element")
		nameAttr := constStr(in, a[2], "name attribute value")
		valAttr := constStr(in, a[3], "value attribute")
		val, present, esc, n := formField(segs, elem, nameAttr, valAttr)
		_ = n
		if !present {
			return Tuple{smt.StrLit(""), smt.False, smt.False}
		}
		return Tuple{val, smt.True, smt.Bool(esc)}
	}
	// vPostedDocumentSigned(b64): the posted document (base64 of a serialisation) contains a ds:Signature child of the root
	intrinsics["vPostedDocumentSigned"] = func(in *Interp, fn *ssa.Function, a []Value) Value {
		t := termArg(in, a[0])
		// t = b64e_std(ser_x): find the bound document
		if t.Op == "b64e_std" && len(t.Args) == 1 {
			if d := in.lookupDoc(t.Args[0]); d != nil && d.Root != nil {
				for _, c := range in.viewElem(d.Root).Children {
					if c.Kind == "elem" {
						if ce := in.viewElem(c.Elem); ce.Tag.Const && ce.Tag.Str == "Signature" {
							return smt.True
						}
					}
				}
				return smt.False
			}
		}
		in.end("unmodelled", "vPostedDocumentSigned: not a base64 of a known serialisation: %s", t.S)
		return nil
	}
	intrinsics["vContains"] = func(in *Interp, fn *ssa.Function, a []Value) Value {
		return smt.StrContains(termArg(in, a[0]), termArg(in, a[1]))
	}
	intrinsics["vFormCount"] = func(in *Interp, fn *ssa.Function, a []Value) Value {
		out := in.stringOfBytes(a[0].(*SliceV))
		segs, ok := in.Ghost["tmplout:"+out.S].([]tmplSeg)
		if !ok {
			return smt.BV(^uint64(0), 64)
		}
		tag := constStr(in, a[1], "tag")
		var b strings.Builder
		for _, s := range segs {
			if s.Val == nil {
				b.WriteString(s.Lit)
			} else {
				b.WriteString("X")
			}
		}
		return smt.BV(uint64(strings.Count(strings.ToLower(b.String()), "<"+tag)), 64)
	}
}

type tmplSeg struct {
	Lit   string
	Val   *smt.Term
	Field string
	Esc   bool
}

type signedRec struct {
	Content *smt.Term
	Key     string
	Hash    string
}

// formField scans the literal skeleton of the page for <elem ... name="nameAttr" ... valAttr="§i§"> (or, when
// nameAttr is empty, the first <elem ... valAttr="§i§">) and returns the value bound at that slot.
func formField(segs []tmplSeg, elem, nameAttr, valAttr string) (*smt.Term, bool, bool, int) {
	var b strings.Builder
	var vals []tmplSeg
	for _, s := range segs {
		if s.Val == nil {
			b.WriteString(s.Lit)
		} else {
			fmt.Fprintf(&b, "\x00%d\x00", len(vals))
			vals = append(vals, s)
		}
	}
	page := b.String()
	re := regexp.MustCompile(`(?is)<` + regexp.QuoteMeta(elem) + `\b([^>]*)>`)
	count := 0
	for _, m := range re.FindAllStringSubmatch(page, -1) {
		attrs := m[1]
		if nameAttr != "" && !regexp.MustCompile(`(?i)\bname="`+regexp.QuoteMeta(nameAttr)+`"`).MatchString(attrs) {
			continue
		}
		vm := regexp.MustCompile(`(?i)\b` + regexp.QuoteMeta(valAttr) + `="\x00(\d+)\x00"`).FindStringSubmatch(attrs)
		if vm == nil {
			continue
		}
		count++
		var idx int
		fmt.Sscanf(vm[1], "%d", &idx)
		return vals[idx].Val, true, vals[idx].Esc, count
	}
	return nil, false, false, 0
}

// signingKeyOf identifies the key a SigningContext signs with: "field:<obj>" for a key-store key,
// "signer:<obj>" for a crypto.Signer; kerr: the key store failed.
func (in *Interp) signingKeyOf(ctx *Ptr, ct types.Type) (key, hash string, kerr bool) {
	sv := in.load(ctx).(*StructV)
	h := sv.F[fieldIndex(ct, "Hash")].(*smt.Term)
	hash = fmt.Sprintf("hash%d", h.U)
	ks, _ := sv.F[fieldIndex(ct, "KeyStore")].(*Iface)
	if ks != nil && ks.T != nil {
		m := in.lookupMethodByName(ks.T, "GetKeyPair")
		r := in.callFunction(m, []Value{ks.V}, nil).(Tuple)
		if e, _ := r[2].(*Iface); e != nil && e.T != nil {
			return "", hash, true
		}
		kp, _ := r[0].(*Ptr)
		if kp == nil {
			return "nilkey", hash, false
		}
		return fmt.Sprintf("key:obj%d", kp.Obj.ID), hash, false
	}
	sg, _ := sv.F[fieldIndex(ct, "signer")].(*Iface)
	if sg == nil || sg.T == nil {
		in.goPanic("SigningContext without key store and signer")
	}
	if p, ok := sg.V.(*Ptr); ok && p != nil {
		return fmt.Sprintf("key:obj%d", p.Obj.ID), hash, false
	}
	return "signer:?", hash, false
}

// ---- XML signature construction: the real ConstructSignature code is executed; only the digest and the
// raw signature computation are contracts ----

type digestRec struct {
	TreeSig string
	Hash    string
	Canon   string
}

func init() {
	models["(*"+dsigPkg+".SigningContext).digest"] = func(in *Interp, fn *ssa.Function, a []Value) Value {
		ctx := a[0].(*Ptr)
		el := a[1].(*Ptr)
		ct := derefType(fn.Signature.Recv().Type())
		sv := in.load(ctx).(*StructV)
		h := sv.F[fieldIndex(ct, "Hash")].(*smt.Term)
		canon := "nil"
		if c, _ := sv.F[fieldIndex(ct, "Canonicalizer")].(*Iface); c != nil && c.T != nil {
			canon = types.TypeString(c.T, nil)
			if p, ok := c.V.(*Ptr); ok && p != nil {
				canon += fmt.Sprintf("#obj%d", p.Obj.ID)
			}
		}
		var b strings.Builder
		in.treeSig(el, &b)
		k := intGhost(in, "digest.calls")
		in.Ghost["digest.calls"] = k + 1
		d := smt.NewVar(symName(fmt.Sprintf("digest.%d", k)), smt.KStr, 0)
		in.Ghost[fmt.Sprintf("digest:%d", k)] = &digestRec{TreeSig: b.String(), Hash: fmt.Sprintf("hash%d", h.U), Canon: canon}
		in.event("dsig.digest #%d hash=%d canon=%s", k, h.U, canon)
		in.X.noteAssumption("dsig.SigningContext.digest: opaque bytes; the tree, hash and canonicaliser it was computed from are recorded")
		return Tuple{in.SymBytesOfStr(d), nilError()}
	}
	models["(*"+dsigPkg+".SigningContext).signDigest"] = func(in *Interp, fn *ssa.Function, a []Value) Value {
		ctx := a[0].(*Ptr)
		key, hash, kerr := in.signingKeyOf(ctx, derefType(fn.Signature.Recv().Type()))
		in.event("dsig.signDigest key=%s hash=%s", key, hash)
		if kerr {
			return Tuple{&SliceV{}, in.opaqueError("sign-key")}
		}
		// a crypto.Signer (HSM, KMS) may fail at signing time
		if sg := in.signerFails(ctx, derefType(fn.Signature.Recv().Type())); sg {
			return Tuple{&SliceV{}, in.opaqueError("signer")}
		}
		k := intGhost(in, "signdigest.calls")
		in.Ghost["signdigest.calls"] = k + 1
		in.Ghost["signdigest.key"] = key
		s := smt.NewVar(symName(fmt.Sprintf("rawsig.%d", k)), smt.KStr, 0)
		return Tuple{in.SymBytesOfStr(s), nilError()}
	}
	intrinsics["vTreeSig"] = func(in *Interp, fn *ssa.Function, a []Value) Value {
		p, _ := a[0].(*Ptr)
		if p == nil {
			return smt.StrLit("<nil>")
		}
		var b strings.Builder
		in.treeSig(p, &b)
		return smt.StrLit(b.String())
	}
	// vDigestCovered(k): structural signature of the tree digest number k was computed over
	intrinsics["vDigestCovered"] = func(in *Interp, fn *ssa.Function, a []Value) Value {
		k := in.concreteInt(termArg(in, a[0]), "digest index")
		r, _ := in.Ghost[fmt.Sprintf("digest:%d", k)].(*digestRec)
		if r == nil {
			return smt.StrLit("<none>")
		}
		return smt.StrLit(r.TreeSig)
	}
	// vSignatureCovers(root, i): the first digest was computed over root without its child i (the Signature)
	intrinsics["vSignatureCovers"] = func(in *Interp, fn *ssa.Function, a []Value) Value {
		root := a[0].(*Ptr)
		i := in.concreteInt(termArg(in, a[1]), "signature index")
		cp := in.elemCopy(root)
		rm := in.etreeMethod(types.NewPointer(in.etreeType("Element")), "RemoveChildAt")
		in.callFunction(rm, []Value{cp, smt.BV(uint64(i), 64)}, nil)
		var b strings.Builder
		in.treeSig(cp, &b)
		r, _ := in.Ghost["digest:0"].(*digestRec)
		return smt.Bool(r != nil && r.TreeSig == b.String())
	}
	intrinsics["vSPCertBytes"] = func(in *Interp, fn *ssa.Function, a []Value) Value {
		return intrinsics["vBytes"](in, nil, []Value{smt.StrLit("spcert")})
	}
	intrinsics["vDigestHashIs"] = func(in *Interp, fn *ssa.Function, a []Value) Value {
		k := in.concreteInt(termArg(in, a[0]), "digest index")
		r, _ := in.Ghost[fmt.Sprintf("digest:%d", k)].(*digestRec)
		return smt.Bool(r != nil && r.Hash == fmt.Sprintf("hash%d", termArg(in, a[1]).U))
	}
	// vDigestCanonIs(k, c): digest k used canonicaliser c (nil: the library default, i.e. not a caller object)
	intrinsics["vDigestCanonIs"] = func(in *Interp, fn *ssa.Function, a []Value) Value {
		k := in.concreteInt(termArg(in, a[0]), "digest index")
		r, _ := in.Ghost[fmt.Sprintf("digest:%d", k)].(*digestRec)
		if r == nil {
			return smt.False
		}
		c, _ := a[1].(*Iface)
		if c == nil || c.T == nil {
			return smt.Bool(strings.Contains(r.Canon, "goxmldsig"))
		}
		want := types.TypeString(c.T, nil)
		if p, ok := c.V.(*Ptr); ok && p != nil {
			want += fmt.Sprintf("#obj%d", p.Obj.ID)
		}
		return smt.Bool(r.Canon == want)
	}
	intrinsics["vDigestCalls"] = func(in *Interp, fn *ssa.Function, a []Value) Value {
		return smt.BV(uint64(intGhost(in, "digest.calls")), 64)
	}
	intrinsics["vSignDigestKeyIs"] = func(in *Interp, fn *ssa.Function, a []Value) Value {
		key := "nilkey"
		if kp, _ := a[0].(*Ptr); kp != nil {
			key = fmt.Sprintf("key:obj%d", kp.Obj.ID)
		}
		got, _ := in.Ghost["signdigest.key"].(string)
		return smt.Bool(got == key)
	}
}

// signerFails: when the context signs with a crypto.Signer created by the harness with a "fail" flag.
func (in *Interp) signerFails(ctx *Ptr, ct types.Type) bool {
	return false
}
