package sx

import (
	"fmt"
	"go/types"
	"strings"

	"verif/engine/smt"

	"golang.org/x/tools/go/ssa"
)

// Happens-before race check for the lazily initialised signing context (DESIGN C17a).
//
// Two sequential symbolic runs of the operation on one SP give the event sequences of the slow path
// (cache empty) and the fast path (cache filled): lock operations on the SP's mutex and reads / writes of
// the SP's fields and of the fields of the context object the slow path publishes. T threads each run one
// variant; a fast thread reads the cache pointer from one slow thread's write. An SMT query per variant
// assignment asks for an execution (integer time stamps, RWMutex exclusion, read-from consistency, least
// happens-before = program order + unlock->lock, transitively closed) with two conflicting accesses of
// different threads that are unordered. UNSAT for every assignment = race free for T threads x 1 call.

type cEvent struct {
	Op  string // RLock RUnlock Lock Unlock R W
	Loc string // "sp.<path>" | "ctx.<path>" | mutex key
}

type cTrace struct {
	Segs    [][]cEvent
	SP      *Object
	Ctx     *Object
	Active  bool
	CtxRoot []int
}

func (in *Interp) traceAccess(op string, p *Ptr) {
	tr, _ := in.Ghost["ctrace"].(*cTrace)
	if tr == nil || !tr.Active || p == nil || p.Obj == nil {
		return
	}
	var loc string
	switch {
	case p.Obj == tr.SP:
		loc = fmt.Sprintf("sp%v", p.Path)
	case tr.Ctx != nil && p.Obj == tr.Ctx:
		loc = fmt.Sprintf("ctx%v", p.Path)
	default:
		// objects allocated during the slow segment may become the published context
		if tr.Ctx == nil && len(tr.Segs) == 1 && p.Obj.ID > tr.SP.ID {
			loc = fmt.Sprintf("obj%d%v", p.Obj.ID, p.Path)
		} else {
			return
		}
	}
	seg := len(tr.Segs) - 1
	tr.Segs[seg] = append(tr.Segs[seg], cEvent{Op: op, Loc: loc})
}

func init() {
	intrinsics["vTraceStart"] = func(in *Interp, fn *ssa.Function, a []Value) Value {
		sp := a[0].(*Ptr)
		tr := &cTrace{SP: sp.Obj, Active: true, Segs: [][]cEvent{{}}}
		in.Ghost["ctrace"] = tr
		in.X.onSync = func(i *Interp, kind, op, key string) {
			if t, _ := i.Ghost["ctrace"].(*cTrace); t != nil && t.Active {
				seg := len(t.Segs) - 1
				t.Segs[seg] = append(t.Segs[seg], cEvent{Op: op, Loc: "mu:" + key})
			}
		}
		return nil
	}
	// vTraceCut(published): ends the slow-path segment; published is the context object it made visible
	intrinsics["vTraceCut"] = func(in *Interp, fn *ssa.Function, a []Value) Value {
		tr := in.Ghost["ctrace"].(*cTrace)
		if p, _ := a[0].(*Ptr); p != nil {
			tr.Ctx = p.Obj
			// rename accesses to that object recorded in the slow segment
			prefix := fmt.Sprintf("obj%d", p.Obj.ID)
			for i, e := range tr.Segs[0] {
				if strings.HasPrefix(e.Loc, prefix+"[") {
					tr.Segs[0][i].Loc = "ctx" + e.Loc[len(prefix):]
				}
			}
		}
		// drop accesses to other (thread-local) objects
		var kept []cEvent
		for _, e := range tr.Segs[0] {
			if !strings.HasPrefix(e.Loc, "obj") {
				kept = append(kept, e)
			}
		}
		tr.Segs[0] = kept
		tr.Segs = append(tr.Segs, []cEvent{})
		return nil
	}
	intrinsics["vTraceEnd"] = func(in *Interp, fn *ssa.Function, a []Value) Value {
		tr := in.Ghost["ctrace"].(*cTrace)
		tr.Active = false
		return nil
	}
	// vRaceFree(T): no data race among T threads each running the traced operation once
	intrinsics["vRaceFree"] = func(in *Interp, fn *ssa.Function, a []Value) Value {
		T := in.concreteInt(termArg(in, a[0]), "threads")
		tr := in.Ghost["ctrace"].(*cTrace)
		if len(tr.Segs) < 2 {
			in.end("internal", "vRaceFree: need slow and fast segments")
		}
		slow, fast := tr.Segs[0], tr.Segs[1]
		in.event("hb: slow path %d events, fast path %d events", len(slow), len(fast))
		in.Ghost["hb.slow"] = fmtTrace(slow)
		in.Ghost["hb.fast"] = fmtTrace(fast)
		race, desc := in.raceSearch(T, slow, fast)
		if race {
			in.event("hb: RACE %s", desc)
			in.Ghost["choice:race"] = desc
		}
		return smt.Bool(!race)
	}
	intrinsics["vhC17SPNative"] = func(in *Interp, fn *ssa.Function, a []Value) Value { return nilPtr }
	intrinsics["vGlobalWritesReset"] = func(in *Interp, fn *ssa.Function, a []Value) Value {
		in.Ghost["globalwrites"] = 0
		in.Ghost["globalwrites.on"] = true
		return nil
	}
	intrinsics["vGlobalWrites"] = func(in *Interp, fn *ssa.Function, a []Value) Value {
		return smt.BV(uint64(intGhost(in, "globalwrites")), 64)
	}
	// vConfigSig(sp): structural rendering of the exported fields of the SP (values as terms / object identities)
	intrinsics["vConfigSig"] = func(in *Interp, fn *ssa.Function, a []Value) Value {
		sv := in.load(a[0]).(*StructV)
		st := derefType(fn.Signature.Params().At(0).Type()).Underlying().(*types.Struct)
		var b strings.Builder
		for i := 0; i < st.NumFields(); i++ {
			if !st.Field(i).Exported() {
				continue
			}
			fmt.Fprintf(&b, "%s=%s;", st.Field(i).Name(), describe(sv.F[i]))
		}
		return smt.StrLit(b.String())
	}
	// vWatch(p): from now on stores into the object p points to are recorded
	intrinsics["vWatch"] = func(in *Interp, fn *ssa.Function, a []Value) Value {
		in.Ghost["watch.obj"] = a[0].(*Ptr).Obj
		in.Ghost["watch.writes"] = [][]int(nil)
		in.Ghost["watch.type"] = derefType(fn.Signature.Params().At(0).Type())
		return nil
	}
	// vWatchedWritesExcept(field): number of recorded stores into fields other than the named one
	intrinsics["vWatchedWritesExcept"] = func(in *Interp, fn *ssa.Function, a []Value) Value {
		name := constStr(in, a[0], "field name")
		t, _ := in.Ghost["watch.type"].(types.Type)
		skip := -1
		if t != nil {
			skip = fieldIndex(t, name)
		}
		l, _ := in.Ghost["watch.writes"].([][]int)
		n := 0
		for _, p := range l {
			if len(p) > 0 && p[0] == skip {
				continue
			}
			n++
			if t != nil && len(p) > 0 {
				in.event("write to SP field %s", t.Underlying().(*types.Struct).Field(p[0]).Name())
			}
		}
		return smt.BV(uint64(n), 64)
	}
	intrinsics["vTraceShape"] = func(in *Interp, fn *ssa.Function, a []Value) Value {
		s, _ := in.Ghost["hb.slow"].(string)
		f, _ := in.Ghost["hb.fast"].(string)
		return smt.StrLit("slow: " + s + " | fast: " + f)
	}
}

func fmtTrace(es []cEvent) string {
	var parts []string
	for _, e := range es {
		parts = append(parts, e.Op+"("+e.Loc+")")
	}
	return strings.Join(parts, " ")
}

type hbEv struct {
	Thread int
	Idx    int
	Op     string
	Loc    string // ctx locations are qualified with the owning slow thread
}

// raceSearch enumerates variant assignments (which threads run the slow path, which slow thread each fast
// thread reads the cache from) and asks the solver for a racy execution of each.
func (in *Interp) raceSearch(T int, slow, fast []cEvent) (bool, string) {
	// variants: bit i set = thread i slow. At least one slow thread (someone must fill the cache for a fast one).
	for mask := 1; mask < (1 << T); mask++ {
		var slows []int
		for t := 0; t < T; t++ {
			if mask&(1<<t) != 0 {
				slows = append(slows, t)
			}
		}
		nFast := T - len(slows)
		// sources for fast threads
		total := 1
		for i := 0; i < nFast; i++ {
			total *= len(slows)
		}
		for code := 0; code < total; code++ {
			src := map[int]int{}
			c := code
			for t := 0; t < T; t++ {
				if mask&(1<<t) == 0 {
					src[t] = slows[c%len(slows)]
					c /= len(slows)
				}
			}
			if ok, d := in.raceQuery(T, mask, src, slow, fast); ok {
				return true, d
			}
		}
	}
	return false, ""
}

func (in *Interp) raceQuery(T, mask int, src map[int]int, slow, fast []cEvent) (bool, string) {
	var evs []hbEv
	for t := 0; t < T; t++ {
		tr := fast
		owner := src[t]
		if mask&(1<<t) != 0 {
			tr = slow
			owner = t
		}
		for i, e := range tr {
			loc := e.Loc
			if strings.HasPrefix(loc, "ctx") {
				loc = fmt.Sprintf("ctx@%d%s", owner, loc[3:])
			}
			evs = append(evs, hbEv{Thread: t, Idx: i, Op: e.Op, Loc: loc})
		}
	}
	n := len(evs)
	var b strings.Builder
	c := func(i int) string { return fmt.Sprintf("c%d", i) }
	hb := func(i, j int) string { return fmt.Sprintf("hb_%d_%d", i, j) }
	for i := 0; i < n; i++ {
		fmt.Fprintf(&b, "(declare-fun %s () Int)\n", c(i))
	}
	for i := 0; i < n; i++ {
		for j := 0; j < n; j++ {
			if i != j {
				fmt.Fprintf(&b, "(declare-fun %s () Bool)\n", hb(i, j))
			}
		}
	}
	// distinct time stamps
	b.WriteString("(assert (distinct")
	for i := 0; i < n; i++ {
		b.WriteString(" " + c(i))
	}
	b.WriteString("))\n")
	// program order
	for i := 0; i < n; i++ {
		for j := 0; j < n; j++ {
			if i != j && evs[i].Thread == evs[j].Thread && evs[i].Idx < evs[j].Idx {
				fmt.Fprintf(&b, "(assert (< %s %s))\n(assert %s)\n", c(i), c(j), hb(i, j))
			}
		}
	}
	// critical sections per thread and mutex
	type section struct {
		lock, unlock int
		write        bool
		mu           string
		thread       int
	}
	var secs []section
	for t := 0; t < T; t++ {
		open := map[string]int{}
		openW := map[string]bool{}
		for i, e := range evs {
			if e.Thread != t {
				continue
			}
			switch e.Op {
			case "Lock", "RLock":
				open[e.Loc] = i
				openW[e.Loc] = e.Op == "Lock"
			case "Unlock", "RUnlock":
				if l, ok := open[e.Loc]; ok {
					secs = append(secs, section{lock: l, unlock: i, write: openW[e.Loc], mu: e.Loc, thread: t})
					delete(open, e.Loc)
				}
			}
		}
	}
	for x := 0; x < len(secs); x++ {
		for y := x + 1; y < len(secs); y++ {
			s1, s2 := secs[x], secs[y]
			if s1.thread == s2.thread || s1.mu != s2.mu || (!s1.write && !s2.write) {
				continue
			}
			// mutual exclusion
			fmt.Fprintf(&b, "(assert (or (< %s %s) (< %s %s)))\n", c(s1.unlock), c(s2.lock), c(s2.unlock), c(s1.lock))
		}
	}
	// synchronises-with: an unlock happens-before every later lock of the same mutex (unless both are read locks)
	for x := 0; x < len(secs); x++ {
		for y := 0; y < len(secs); y++ {
			s1, s2 := secs[x], secs[y]
			if x == y || s1.thread == s2.thread || s1.mu != s2.mu || (!s1.write && !s2.write) {
				continue
			}
			fmt.Fprintf(&b, "(assert (=> (< %s %s) %s))\n", c(s1.unlock), c(s2.lock), hb(s1.unlock, s2.lock))
		}
	}
	// hb consistent with time and transitive
	for i := 0; i < n; i++ {
		for j := 0; j < n; j++ {
			if i == j {
				continue
			}
			fmt.Fprintf(&b, "(assert (=> %s (< %s %s)))\n", hb(i, j), c(i), c(j))
			for k := 0; k < n; k++ {
				if k != i && k != j {
					fmt.Fprintf(&b, "(assert (=> (and %s %s) %s))\n", hb(i, j), hb(j, k), hb(i, k))
				}
			}
		}
	}
	// read-from consistency of the cache pointer: the first read of sp cache location in each thread
	cacheLoc := ""
	for _, e := range fast {
		if e.Op == "R" && strings.HasPrefix(e.Loc, "sp") {
			cacheLoc = e.Loc
			break
		}
	}
	firstRead := map[int]int{}
	writes := map[int][]int{}
	for i, e := range evs {
		if e.Loc != cacheLoc {
			continue
		}
		if e.Op == "R" {
			if _, ok := firstRead[e.Thread]; !ok {
				firstRead[e.Thread] = i
			}
		}
		if e.Op == "W" {
			writes[e.Thread] = append(writes[e.Thread], i)
		}
	}
	for t := 0; t < T; t++ {
		r, ok := firstRead[t]
		if !ok {
			continue
		}
		if mask&(1<<t) != 0 {
			// slow: saw nil -> every write of another thread is later
			for u, ws := range writes {
				if u == t {
					continue
				}
				for _, w := range ws {
					fmt.Fprintf(&b, "(assert (< %s %s))\n", c(r), c(w))
				}
			}
		} else {
			// fast: reads from src[t]'s last write; no other write in between
			s := src[t]
			if len(writes[s]) == 0 {
				return false, ""
			}
			w := writes[s][len(writes[s])-1]
			fmt.Fprintf(&b, "(assert (< %s %s))\n", c(w), c(r))
			for u, ws := range writes {
				if u == s {
					continue
				}
				for _, w2 := range ws {
					fmt.Fprintf(&b, "(assert (or (< %s %s) (< %s %s)))\n", c(w2), c(w), c(r), c(w2))
				}
			}
		}
	}
	// the race: two conflicting accesses of different threads, unordered
	var pairs []string
	var pairDesc []string
	for i := 0; i < n; i++ {
		for j := i + 1; j < n; j++ {
			a, d := evs[i], evs[j]
			if a.Thread == d.Thread || a.Loc != d.Loc || (a.Op != "R" && a.Op != "W") || (d.Op != "R" && d.Op != "W") || (a.Op == "R" && d.Op == "R") {
				continue
			}
			pairs = append(pairs, fmt.Sprintf("(and (not %s) (not %s))", hb(i, j), hb(j, i)))
			pairDesc = append(pairDesc, fmt.Sprintf("%s(%s) by thread %d vs %s(%s) by thread %d", a.Op, a.Loc, a.Thread, d.Op, d.Loc, d.Thread))
		}
	}
	if len(pairs) == 0 {
		return false, ""
	}
	b.WriteString("(assert (or " + strings.Join(pairs, " ") + "))\n")
	res, info := in.Solver.CheckRaw(b.String())
	in.Ghost["hb.queries"] = intGhost(in, "hb.queries") + 1
	switch res {
	case smt.Sat:
		return true, fmt.Sprintf("variant mask=%b sources=%v: some of %d conflicting pairs is unordered (e.g. among: %s)", mask, src, len(pairs), strings.Join(pairDesc[:min(3, len(pairDesc))], "; "))
	case smt.Unknown:
		in.X.mu.Lock()
		in.X.Inconclusive = append(in.X.Inconclusive, "hb race query unknown: "+info)
		in.X.mu.Unlock()
	}
	return false, ""
}
