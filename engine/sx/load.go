// Package sx is a forking symbolic executor over go/ssa (stateless search: every path is
// re-executed from the harness entry following a recorded decision prefix).
package sx

import (
	"fmt"
	"go/token"
	"go/types"
	"os"
	"path/filepath"
	"sort"
	"strings"

	"golang.org/x/tools/go/packages"
	"golang.org/x/tools/go/ssa"
	"golang.org/x/tools/go/ssa/ssautil"
)

type Program struct {
	Prog    *ssa.Program
	Fset    *token.FileSet
	Root    *ssa.Package // package saml2 (with harness overlay)
	Pkgs    map[string]*ssa.Package
	RepoDir string
	RepoMod string
	fnInfo  map[*ssa.Function]*fnInfo
}

// Load builds SSA for the repository's root package (plus ./types, ./uuid) with the given
// overlay files (absolute virtual path -> contents) and build tags.
func Load(repoDir string, overlay map[string][]byte, tags string) (*Program, error) {
	fset := token.NewFileSet()
	cfg := &packages.Config{
		Mode: packages.NeedName | packages.NeedFiles | packages.NeedCompiledGoFiles | packages.NeedImports |
			packages.NeedDeps | packages.NeedTypes | packages.NeedSyntax | packages.NeedTypesInfo | packages.NeedTypesSizes | packages.NeedModule,
		Dir:     repoDir,
		Fset:    fset,
		Overlay: overlay,
		Env:     append(os.Environ(), "GOFLAGS=-mod=mod", "GOPROXY=off", "GOSUMDB=off", "GOTOOLCHAIN=local"),
	}
	if tags != "" {
		cfg.BuildFlags = []string{"-tags=" + tags}
	}
	pkgs, err := packages.Load(cfg, ".", "./types", "./uuid")
	if err != nil {
		return nil, err
	}
	var errs []string
	packages.Visit(pkgs, nil, func(p *packages.Package) {
		for _, e := range p.Errors {
			errs = append(errs, e.Error())
		}
	})
	if len(errs) > 0 {
		sort.Strings(errs)
		if len(errs) > 20 {
			errs = errs[:20]
		}
		return nil, fmt.Errorf("load errors:\n%s", strings.Join(errs, "\n"))
	}
	prog, spkgs := ssautil.AllPackages(pkgs, ssa.InstantiateGenerics)
	prog.Build()
	p := &Program{Prog: prog, Fset: fset, Pkgs: map[string]*ssa.Package{}, RepoDir: repoDir, fnInfo: map[*ssa.Function]*fnInfo{}}
	for _, sp := range prog.AllPackages() {
		p.Pkgs[sp.Pkg.Path()] = sp
	}
	for i, pk := range pkgs {
		if pk.Dir == "" && len(pk.GoFiles) > 0 {
			pk.Dir = filepath.Dir(pk.GoFiles[0])
		}
		if spkgs[i] != nil && pk.Name == "saml2" {
			p.Root = spkgs[i]
			p.RepoMod = pk.PkgPath
		}
	}
	if p.Root == nil {
		return nil, fmt.Errorf("root package saml2 not found")
	}
	return p, nil
}

// Func looks up a package-level function or method "T.M" / "(*T).M" in the root package.
func (p *Program) Func(name string) *ssa.Function {
	if f := p.Root.Func(name); f != nil {
		return f
	}
	return nil
}

// HarnessNames lists package-level functions in the root package with the given prefix.
func (p *Program) HarnessNames(prefix string) []string {
	var out []string
	for name, m := range p.Root.Members {
		if f, ok := m.(*ssa.Function); ok && strings.HasPrefix(name, prefix) && f.Signature.Params().Len() == 0 {
			out = append(out, name)
		}
	}
	sort.Strings(out)
	return out
}

func pkgPathOf(fn *ssa.Function) string {
	if fn.Pkg != nil {
		return fn.Pkg.Pkg.Path()
	}
	if fn.Origin() != nil && fn.Origin().Pkg != nil {
		return fn.Origin().Pkg.Pkg.Path()
	}
	if p := fn.Parent(); p != nil {
		return pkgPathOf(p)
	}
	if fn.Object() != nil && fn.Object().Pkg() != nil {
		return fn.Object().Pkg().Path()
	}
	return ""
}

// fullName: "pkgpath.Func" or "(*pkgpath.T).M" as printed by ssa.
func fullName(fn *ssa.Function) string { return fn.String() }

var _ = types.Universe
