package sx

import (
	"fmt"
	"go/types"
	"sync"

	"verif/engine/smt"

	"golang.org/x/tools/go/ssa"
)

// ---- ghost objects: values created by models whose methods are models too ----

var (
	ghostTypeMu sync.Mutex
	ghostTypes  = map[string]types.Type{}
	// ghostMethods["kind.Method"]
	ghostMethods = map[string]func(in *Interp, self *Object, args []Value) Value{}
)

func ghostType(kind string) types.Type {
	ghostTypeMu.Lock()
	defer ghostTypeMu.Unlock()
	if t, ok := ghostTypes[kind]; ok {
		return t
	}
	n := types.NewNamed(types.NewTypeName(0, nil, "vx_"+kind, nil), types.NewStruct(nil, nil), nil)
	t := types.NewPointer(n)
	ghostTypes[kind] = t
	return t
}

func (in *Interp) newGhost(kind string, g map[string]interface{}) *Object {
	o := in.newObject(ghostType(kind), &StructV{}, "ghost:"+kind)
	if g == nil {
		g = map[string]interface{}{}
	}
	g["kind"] = kind
	o.Ghost = g
	return o
}

func (in *Interp) ghostIface(kind string, g map[string]interface{}) *Iface {
	o := in.newGhost(kind, g)
	return &Iface{T: ghostType(kind), V: &Ptr{Obj: o}}
}

// ghostOf returns the ghost object behind a pointer or interface value.
func ghostOf(v Value) *Object {
	switch x := v.(type) {
	case *Iface:
		if x == nil || x.T == nil {
			return nil
		}
		return ghostOf(x.V)
	case *Ptr:
		if x == nil || x.Obj == nil || x.Obj.Ghost == nil {
			return nil
		}
		if _, ok := x.Obj.Ghost["kind"]; ok {
			return x.Obj
		}
	}
	return nil
}

func ghostKind(o *Object) string {
	if o == nil {
		return ""
	}
	k, _ := o.Ghost["kind"].(string)
	return k
}

const maxInt64 = int64(^uint64(0) >> 1)

// ---- inflate model ----
// inflate(data) : the bytes the DEFLATE decoder can produce from data before end-of-stream or error;
// inflate_err(data): the stream is corrupt / truncated after those bytes.

func Inflate(data *smt.Term) *smt.Term {
	return smt.UF("inflate", []string{"String"}, &smt.Term{K: smt.KStr}, data)
}
func InflateErr(data *smt.Term) *smt.Term {
	return smt.UF("inflate_err", []string{"String"}, &smt.Term{K: smt.KBool}, data)
}

func init() {
	models["bytes.NewReader"] = func(in *Interp, fn *ssa.Function, a []Value) Value {
		o := in.newGhost("bytesreader", map[string]interface{}{"data": a[0]})
		return &Ptr{Obj: o}
	}
	models["bytes.NewBuffer"] = func(in *Interp, fn *ssa.Function, a []Value) Value {
		o := in.newGhost("bytesreader", map[string]interface{}{"data": a[0]})
		return &Ptr{Obj: o}
	}
	models["compress/flate.NewReader"] = func(in *Interp, fn *ssa.Function, a []Value) Value {
		in.event("flate.NewReader")
		return in.ghostIface("flatereader", map[string]interface{}{"src": a[0]})
	}
	ghostMethods["flatereader.Close"] = func(in *Interp, self *Object, a []Value) Value { return nilError() }
	models["io.LimitReader"] = func(in *Interp, fn *ssa.Function, a []Value) Value {
		n := a[1].(*smt.Term)
		in.event("io.LimitReader n=%s", n.S)
		return in.ghostIface("limitreader", map[string]interface{}{"inner": a[0], "n": n})
	}
	readAll := func(in *Interp, fn *ssa.Function, a []Value) Value {
		g := ghostOf(a[0])
		var limit *smt.Term
		if g == nil {
			// &io.LimitedReader{R: r, N: n} used directly
			if ifc, ok := a[0].(*Iface); ok && ifc != nil && ifc.T != nil && types.TypeString(ifc.T, nil) == "*io.LimitedReader" {
				lv := in.load(ifc.V.(*Ptr)).(*StructV)
				limit = lv.F[1].(*smt.Term)
				g = ghostOf(lv.F[0])
			}
		}
		if ghostKind(g) == "limitreader" {
			limit = g.Ghost["n"].(*smt.Term)
			g = ghostOf(g.Ghost["inner"].(Value))
		}
		var content *smt.Term
		var corrupt *smt.Term = smt.False
		switch ghostKind(g) {
		case "flatereader":
			src := ghostOf(g.Ghost["src"].(Value))
			var srcLimit *smt.Term
			if ghostKind(src) == "limitreader" {
				// the inflater is fed through a LimitReader: it sees the first n bytes of the compressed input
				srcLimit = src.Ghost["n"].(*smt.Term)
				src = ghostOf(src.Ghost["inner"].(Value))
			}
			if ghostKind(src) != "bytesreader" {
				in.end("unmodelled", "flate reader over %s at %s", ghostKind(src), in.where())
			}
			data := in.stringOfBytes(src.Ghost["data"].(*SliceV))
			if srcLimit != nil {
				L := smt.Ite(smt.BVSlt(srcLimit, smt.BV(0, 64)), smt.BV(0, 64), srcLimit)
				cut := smt.UF("take", []string{"String", "(_ BitVec 64)"}, &smt.Term{K: smt.KStr}, data, L)
				in.Assume(smt.Implies(smt.BVSle(BLen(data), L), smt.Eq(cut, data)))
				in.Assume(smt.Eq(BLen(cut), smt.Ite(smt.BVSle(BLen(data), L), BLen(data), L)))
				data = cut
			}
			content = Inflate(data)
			corrupt = InflateErr(data)
			in.X.noteAssumption("compress/flate: inflate(data) = bytes producible before end-of-stream or error; inflate_err(data) = stream corrupt/truncated after them (uninterpreted functions of the input bytes)")
		case "bytesreader":
			content = in.stringOfBytes(g.Ghost["data"].(*SliceV))
		default:
			in.end("unmodelled", "io.ReadAll on reader kind %q at %s", ghostKind(g), in.where())
		}
		total := BLen(content)
		in.assumeOnce(smt.BVSle(smt.BV(0, 64), total))
		var res, n *smt.Term
		var hitErr *smt.Term
		if limit != nil {
			// L = max(n, 0)
			L := smt.Ite(smt.BVSlt(limit, smt.BV(0, 64)), smt.BV(0, 64), limit)
			res = smt.UF("take", []string{"String", "(_ BitVec 64)"}, &smt.Term{K: smt.KStr}, content, L)
			n = BLen(res)
			fits := smt.BVSle(total, L)
			in.Assume(smt.Eq(n, smt.Ite(fits, total, L)))
			in.Assume(smt.Implies(fits, smt.Eq(res, content)))
			in.Assume(smt.Implies(smt.Eq(n, smt.BV(0, 64)), smt.Eq(res, smt.StrLit(""))))
			hitErr = smt.And(corrupt, smt.BVSlt(total, L))
			in.X.noteAssumption("io.LimitReader/io.ReadAll: ReadAll(LimitReader(r,n)) returns the first max(n,0) bytes of the stream (take(stream,n), of length min(len,n), equal to the stream when it fits); a stream error is seen only if it lies before the limit")
		} else {
			res = content
			n = total
			hitErr = corrupt
		}
		// ghost: bytes materialised by this call
		prev, _ := in.Ghost["materialised"].(*smt.Term)
		if prev == nil {
			in.Ghost["materialised"] = n
		} else {
			in.Ghost["materialised"] = smt.Ite(smt.BVSlt(prev, n), n, prev)
		}
		k, _ := in.Ghost["readall.calls"].(int)
		in.Ghost["readall.calls"] = k + 1
		if limit == nil {
			in.Ghost["readall.unlimited"] = true
		}
		in.event("io.ReadAll limited=%v", limit != nil)
		if in.Branch(hitErr) {
			return Tuple{&SliceV{}, in.opaqueError("flate")}
		}
		return Tuple{in.SymBytesOfStr(res), nilError()}
	}
	models["io.ReadAll"] = readAll
	models["io/ioutil.ReadAll"] = readAll

	// vBlob(name): symbolic byte string (attacker-controlled message bytes)
	intrinsics["vBlob"] = func(in *Interp, fn *ssa.Function, a []Value) Value {
		name := in.fresh(constStr(in, a[0], "vBlob name"))
		s := smt.NewVar(symName(name), smt.KStr, 0)
		ir := in.addInput(name, "blob", s)
		ir.Extra["inflated_len"] = BLen(Inflate(s))
		ir.Extra["inflate_err"] = InflateErr(s)
		ir.Extra["decode_ok"] = DecodeOK(s)
		ir.Extra["inflated_decode_ok"] = DecodeOK(Inflate(s))
		ir.Extra["len"] = BLen(s)
		return in.SymBytesOfStr(s)
	}
	// vDecodeOK(b): uninterpreted predicate of the content ("the decoder accepts these bytes"); every application
	// is recorded (length, verdict) so that the native decoder can give the same verdict for the same message
	intrinsics["vDecodeOK"] = func(in *Interp, fn *ssa.Function, a []Value) Value {
		c := in.stringOfBytes(a[0].(*SliceV))
		if !c.Const {
			ir := in.inputIdx["decoder"]
			if ir == nil {
				ir = in.addInput("decoder", "table", smt.BV(0, 64))
			}
			seen, _ := in.Ghost["decoder.seen"].(map[string]bool)
			if seen == nil {
				seen = map[string]bool{}
				in.Ghost["decoder.seen"] = seen
			}
			if !seen[c.S] && len(seen) < 8 {
				k := len(seen)
				seen[c.S] = true
				ir.Extra[fmt.Sprintf("%d.len", k)] = BLen(c)
				ir.Extra[fmt.Sprintf("%d.ok", k)] = DecodeOK(c)
			}
		}
		return DecodeOK(c)
	}
	intrinsics["vInflatedLen"] = func(in *Interp, fn *ssa.Function, a []Value) Value {
		return BLen(Inflate(in.stringOfBytes(a[0].(*SliceV))))
	}
	intrinsics["vInflateErr"] = func(in *Interp, fn *ssa.Function, a []Value) Value {
		return InflateErr(in.stringOfBytes(a[0].(*SliceV)))
	}
	intrinsics["vInflatedDecodeOK"] = func(in *Interp, fn *ssa.Function, a []Value) Value {
		return DecodeOK(Inflate(in.stringOfBytes(a[0].(*SliceV))))
	}
	intrinsics["vBytesEq"] = func(in *Interp, fn *ssa.Function, a []Value) Value {
		return smt.Eq(in.stringOfBytes(a[0].(*SliceV)), in.stringOfBytes(a[1].(*SliceV)))
	}
	intrinsics["vIsInflateOf"] = func(in *Interp, fn *ssa.Function, a []Value) Value {
		return smt.Eq(in.stringOfBytes(a[0].(*SliceV)), Inflate(in.stringOfBytes(a[1].(*SliceV))))
	}
	// vMaterialised(): max number of bytes any ReadAll produced so far (Int as BV64; assumed < 2^63)
	intrinsics["vMaterialised"] = func(in *Interp, fn *ssa.Function, a []Value) Value {
		m, _ := in.Ghost["materialised"].(*smt.Term)
		if m == nil {
			return smt.BV(0, 64)
		}
		return m
	}
	intrinsics["vMemMark"] = func(in *Interp, fn *ssa.Function, a []Value) Value {
		delete(in.Ghost, "materialised") // measure from here
		return nil
	}
	intrinsics["vReadAllCalls"] = func(in *Interp, fn *ssa.Function, a []Value) Value {
		k, _ := in.Ghost["readall.calls"].(int)
		return smt.BV(uint64(k), 64)
	}
	intrinsics["vReadAllUnlimited"] = func(in *Interp, fn *ssa.Function, a []Value) Value {
		b, _ := in.Ghost["readall.unlimited"].(bool)
		return smt.Bool(b)
	}
}

func DecodeOK(s *smt.Term) *smt.Term {
	return smt.UF("decode_ok", []string{"String"}, &smt.Term{K: smt.KBool}, s)
}

var _ = fmt.Sprintf
