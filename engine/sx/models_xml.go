package sx

import (
	"fmt"
	"go/types"
	"hash/fnv"
	"reflect"
	"sort"
	"strconv"
	"strings"

	"verif/engine/smt"

	"golang.org/x/tools/go/ssa"
)

const etreePkg = "github.com/beevik/etree"

// ---- typed access to etree objects on the symbolic heap ----

func (in *Interp) etreeType(name string) types.Type {
	p := in.P.Prog.ImportedPackage(etreePkg)
	if p == nil {
		in.end("internal", "etree not loaded")
	}
	return p.Type(name).Type()
}

func fieldIndex(t types.Type, name string) int {
	st := t.Underlying().(*types.Struct)
	for i := 0; i < st.NumFields(); i++ {
		if st.Field(i).Name() == name {
			return i
		}
	}
	return -1
}

type xAttr struct{ Space, Key, Value *smt.Term }
type xChild struct {
	Elem  *Ptr      // element child
	Text  *smt.Term // character data child
	Kind  string    // "elem", "text", "other"
	CData bool      // character data held as a CDATA section node
	CP    *Ptr      // the CharData node
}
type xElem struct {
	P        *Ptr
	Space    *smt.Term
	Tag      *smt.Term
	Attrs    []xAttr
	Children []xChild
}

func (in *Interp) sliceElems(v Value) []Value {
	s, _ := v.(*SliceV)
	if s == nil || s.Arr == nil {
		return nil
	}
	return s.Arr.V.(*ArrayV).E[s.Off : s.Off+s.Len]
}

func (in *Interp) viewElem(p *Ptr) *xElem {
	et := in.etreeType("Element")
	sv, ok := in.load(p).(*StructV)
	if !ok {
		in.end("internal", "viewElem: not an element")
	}
	e := &xElem{P: p, Space: sv.F[fieldIndex(et, "Space")].(*smt.Term), Tag: sv.F[fieldIndex(et, "Tag")].(*smt.Term)}
	at := in.etreeType("Attr")
	for _, av := range in.sliceElems(sv.F[fieldIndex(et, "Attr")]) {
		a := av.(*StructV)
		e.Attrs = append(e.Attrs, xAttr{Space: a.F[fieldIndex(at, "Space")].(*smt.Term), Key: a.F[fieldIndex(at, "Key")].(*smt.Term), Value: a.F[fieldIndex(at, "Value")].(*smt.Term)})
	}
	cdt := in.etreeType("CharData")
	for _, cv := range in.sliceElems(sv.F[fieldIndex(et, "Child")]) {
		ifc := cv.(*Iface)
		if ifc.T == nil {
			continue
		}
		cp := ifc.V.(*Ptr)
		switch {
		case isNamed(ifc.T, etreePkg, "Element"):
			e.Children = append(e.Children, xChild{Kind: "elem", Elem: cp})
		case isNamed(ifc.T, etreePkg, "CharData"):
			cdv := in.load(cp).(*StructV)
			d := cdv.F[fieldIndex(cdt, "Data")].(*smt.Term)
			fl, _ := cdv.F[fieldIndex(cdt, "flags")].(*smt.Term)
			e.Children = append(e.Children, xChild{Kind: "text", Text: d, CP: cp, CData: fl != nil && fl.Const && fl.U&2 != 0})
		default:
			e.Children = append(e.Children, xChild{Kind: "other"})
		}
	}
	return e
}

func cstr(t *smt.Term) string {
	if t.Const {
		return t.Str
	}
	return "?" + t.S
}

func (e *xElem) attr(key string) (*smt.Term, bool) {
	for _, a := range e.Attrs {
		if a.Space.Const && a.Space.Str == "" && a.Key.Const && a.Key.Str == key {
			return a.Value, true
		}
	}
	return nil, false
}

// treeSig: a structural signature of the subtree (names and value terms), used to make serialisation a
// deterministic function of the tree.
func (in *Interp) treeSig(p *Ptr, b *strings.Builder) {
	e := in.viewElem(p)
	fmt.Fprintf(b, "<%s:%s", cstr(e.Space), cstr(e.Tag))
	for _, a := range e.Attrs {
		fmt.Fprintf(b, " %s:%s=%s", cstr(a.Space), cstr(a.Key), a.Value.S)
	}
	b.WriteString(">")
	for _, c := range e.Children {
		switch c.Kind {
		case "elem":
			in.treeSig(c.Elem, b)
		case "text":
			if c.CData {
				b.WriteString("CDATA(" + c.Text.S + ")")
			} else {
				b.WriteString("T(" + c.Text.S + ")")
			}
		default:
			b.WriteString("O")
		}
	}
	b.WriteString("</>")
}

// clearCData turns every CDATA node of the subtree into ordinary character data (what a default parse yields).
func (in *Interp) clearCData(p *Ptr) {
	cdt := in.etreeType("CharData")
	fi := fieldIndex(cdt, "flags")
	e := in.viewElem(p)
	for _, c := range e.Children {
		switch {
		case c.Kind == "elem":
			in.clearCData(c.Elem)
		case c.Kind == "text" && c.CData:
			fl := in.load(c.CP).(*StructV).F[fi].(*smt.Term)
			in.store(c.CP.extend(fi), smt.BV(fl.U&^2, fl.W))
		}
	}
}

// hasEmptyCData: some CDATA node below p holds no characters.
func (in *Interp) hasEmptyCData(p *Ptr) bool {
	e := in.viewElem(p)
	for _, c := range e.Children {
		if (c.Kind == "elem" && in.hasEmptyCData(c.Elem)) || (c.Kind == "text" && c.CData && c.Text.Const && c.Text.Str == "") {
			return true
		}
	}
	return false
}

// hasCData: some character data below p is held as a CDATA node.
func (in *Interp) hasCData(p *Ptr) bool {
	e := in.viewElem(p)
	for _, c := range e.Children {
		if (c.Kind == "elem" && in.hasCData(c.Elem)) || (c.Kind == "text" && c.CData) {
			return true
		}
	}
	return false
}

// ---- calling real etree code ----

func (in *Interp) etreeMethod(recv types.Type, name string) *ssa.Function {
	ms := in.P.Prog.MethodSets.MethodSet(recv)
	sel := ms.Lookup(in.P.Prog.ImportedPackage(etreePkg).Pkg, name)
	if sel == nil {
		in.end("internal", "etree method %s not found", name)
	}
	return in.P.Prog.MethodValue(sel)
}

func (in *Interp) elemCopy(p *Ptr) *Ptr {
	fn := in.etreeMethod(types.NewPointer(in.etreeType("Element")), "Copy")
	return in.callFunction(fn, []Value{p}, nil).(*Ptr)
}

// ---- document registry: content term -> tree ----

type boundDoc struct {
	Root *Ptr // nil: well-formed but no root element
	Name string
	// declared encoding other than UTF-8 (etree passes it through, encoding/xml rejects it)
	OtherEncoding bool
}

func (in *Interp) bindDoc(content *smt.Term, d *boundDoc) { in.Ghost["tree:"+content.S] = d }
func (in *Interp) lookupDoc(content *smt.Term) *boundDoc {
	if d, ok := in.Ghost["tree:"+content.S].(*boundDoc); ok {
		return d
	}
	// take(X, L): the first L bytes of X — the whole of X when it fits (then it parses like X); a truncated
	// document does not parse
	if content.Op == "take" && len(content.Args) == 2 {
		x, l := content.Args[0], content.Args[1]
		if in.Branch(smt.BVSle(BLen(x), l)) {
			return in.lookupDoc(x)
		}
		return nil
	}
	return nil
}

func (in *Interp) noteList(key, v string) {
	l, _ := in.Ghost[key].([]string)
	in.Ghost[key] = append(l, v)
}

func init() {
	// sort.Sort over the interface methods (insertion sort; comparisons of concrete keys fold to constants)
	models["sort.Sort"] = func(in *Interp, fn *ssa.Function, a []Value) Value {
		ifc := a[0].(*Iface)
		call := func(name string, args ...Value) Value {
			m := in.lookupMethodByName(ifc.T, name)
			return in.callFunction(m, append([]Value{ifc.V}, args...), nil)
		}
		n := in.concreteInt(call("Len").(*smt.Term), "sort length")
		for i := 1; i < n; i++ {
			for j := i; j > 0; j-- {
				less := call("Less", smt.BV(uint64(j), 64), smt.BV(uint64(j-1), 64)).(*smt.Term)
				if !in.Branch(less) {
					break
				}
				call("Swap", smt.BV(uint64(j), 64), smt.BV(uint64(j-1), 64))
			}
		}
		return nil
	}
	models["sort.Stable"] = models["sort.Sort"]

	models["(*"+etreePkg+".Document).ReadFromBytes"] = func(in *Interp, fn *ssa.Function, a []Value) Value {
		doc := a[0].(*Ptr)
		content := in.stringOfBytes(a[1].(*SliceV))
		// the parse contract is stated for etree's default ReadSettings only
		dt := in.etreeType("Document")
		rs := in.load(doc).(*StructV).F[fieldIndex(dt, "ReadSettings")]
		def := zeroValue(in.etreeType("ReadSettings")).(*StructV)
		rsv, _ := rs.(*StructV)
		preserveCData := false
		pcIdx := fieldIndex(in.etreeType("ReadSettings"), "PreserveCData")
		for i := range def.F {
			if t, ok := rsv.F[i].(*smt.Term); ok {
				if i == pcIdx && t.Const && t.K == smt.KBool {
					preserveCData = t.B
					continue
				}
				if dtm, ok2 := def.F[i].(*smt.Term); ok2 && t.K == smt.KBool && (!t.Const || t.B != dtm.B) {
					in.end("unmodelled", "etree ReadSettings differ from the defaults (field %d): the parse model does not apply at %s", i, in.where())
				}
			}
		}
		in.noteList("parsed", content.S)
		in.event("etree.ReadFromBytes")
		in.X.noteAssumption("etree.Document.ReadFromBytes: a function of the bytes; bytes produced by the scenario encoder parse to a fresh copy of the scenario tree, all other bytes fail to parse")
		d := in.lookupDoc(content)
		if d == nil {
			return in.opaqueError("xml-parse")
		}
		if d.Root != nil {
			cp := in.elemCopy(d.Root)
			if !preserveCData {
				// CDATA sections arrive as ordinary character data unless ReadSettings.PreserveCData is set
				in.clearCData(cp)
			}
			setRoot := in.etreeMethod(types.NewPointer(in.etreeType("Document")), "SetRoot")
			in.callFunction(setRoot, []Value{doc, cp}, nil)
		}
		if d.OtherEncoding {
			in.Ghost["docenc:"+ptrKey(doc)] = true
		}
		return nilError()
	}
	models["(*"+etreePkg+".Document).ReadFromString"] = func(in *Interp, fn *ssa.Function, a []Value) Value {
		return models["(*"+etreePkg+".Document).ReadFromBytes"](in, fn, []Value{a[0], in.SymBytesOfStr(termArg(in, a[1]))})
	}
	serialise := func(in *Interp, doc *Ptr) *smt.Term {
		rootFn := in.etreeMethod(types.NewPointer(in.etreeType("Document")), "Root")
		root, _ := in.callFunction(rootFn, []Value{doc}, nil).(*Ptr)
		var b strings.Builder
		if root != nil {
			in.treeSig(root, &b)
		} else {
			b.WriteString("<empty/>")
		}
		h := fnv.New64a()
		h.Write([]byte(b.String()))
		name := fmt.Sprintf("ser_%016x", h.Sum64())
		content := smt.NewVar(name, smt.KStr, 0)
		if in.lookupDoc(content) == nil {
			d := &boundDoc{Name: name}
			if root != nil {
				d.Root = in.elemCopy(root)
			}
			if enc, _ := in.Ghost["docenc:"+ptrKey(doc)].(bool); enc {
				d.OtherEncoding = true
			}
			in.bindDoc(content, d)
			in.assumeOnce(smt.Not(smt.Eq(content, smt.StrLit(""))))
		}
		in.event("etree.WriteTo -> %s", name)
		in.X.noteAssumption("etree.Document.WriteToBytes/WriteToString: a deterministic, never-failing function of the in-memory tree (opaque bytes whose re-parse yields the same tree)")
		return content
	}
	models["(*"+etreePkg+".Document).WriteToBytes"] = func(in *Interp, fn *ssa.Function, a []Value) Value {
		return Tuple{in.SymBytesOfStr(serialise(in, a[0].(*Ptr))), nilError()}
	}
	models["(*"+etreePkg+".Document).WriteToString"] = func(in *Interp, fn *ssa.Function, a []Value) Value {
		return Tuple{serialise(in, a[0].(*Ptr)), nilError()}
	}
	// WriteTo(w): the same bytes appended to a bytes.Buffer / strings.Builder destination
	models["(*"+etreePkg+".Document).WriteTo"] = func(in *Interp, fn *ssa.Function, a []Value) Value {
		w, _ := a[1].(*Iface)
		if w == nil || w.T == nil {
			in.goPanic("Document.WriteTo(nil writer)")
		}
		ts := types.TypeString(w.T, nil)
		if ts == "*compress/flate.Writer" {
			// the serialisation is handed to the compressor (buffered until Flush / Close)
			g := ghostOf(w.V)
			c := serialise(in, a[0].(*Ptr))
			g.Ghost["pending"] = smt.StrConcat(g.Ghost["pending"].(*smt.Term), c)
			return Tuple{BLen(c), nilError()}
		}
		if g := ghostOf(w); g != nil {
			// a modelled writer (base64 encoder, ...): one Write of the whole serialisation
			if wm, ok := ghostMethods[ghostKind(g)+".Write"]; ok {
				c := serialise(in, a[0].(*Ptr))
				wm(in, g, []Value{in.SymBytesOfStr(c)})
				return Tuple{BLen(c), nilError()}
			}
		}
		if ts != "*bytes.Buffer" && ts != "*strings.Builder" {
			in.end("unmodelled", "etree Document.WriteTo a %s at %s", ts, in.where())
		}
		c := serialise(in, a[0].(*Ptr))
		in.bufAppend(w.V, c)
		return Tuple{BLen(c), nilError()}
	}
	// vSerialised(doc): the serialisation term of the document as it is now (specification side)
	intrinsics["vSerialised"] = func(in *Interp, fn *ssa.Function, a []Value) Value {
		return serialise(in, a[0].(*Ptr))
	}

	models["github.com/mattermost/xml-roundtrip-validator.Validate"] = func(in *Interp, fn *ssa.Function, a []Value) Value {
		g := ghostOf(a[0])
		if ghostKind(g) != "bytesreader" {
			in.end("unmodelled", "rtvalidator.Validate on reader kind %q", ghostKind(g))
		}
		content := in.stringOfBytes(g.Ghost["data"].(*SliceV))
		in.noteList("screened", content.S)
		in.event("rtvalidator.Validate")
		in.X.noteAssumption("xml-roundtrip-validator.Validate: may reject any document (nondeterministic), result recorded per bytes; v0.1.0 always rejects a document containing an empty CDATA section")
		if d := in.lookupDoc(content); d != nil && d.Root != nil && in.hasEmptyCData(d.Root) {
			in.event("rtvalidator rejects the empty CDATA section")
			return in.opaqueError("rtvalidator-empty-cdata")
		}
		if in.Choose(2) == 1 {
			in.Ghost["choice:rtvalidator.rejects"] = 1
			return in.opaqueError("rtvalidator")
		}
		return nilError()
	}

	models["encoding/xml.NewDecoder"] = func(in *Interp, fn *ssa.Function, a []Value) Value {
		dt := derefType(fn.Signature.Results().At(0).Type())
		o := in.newObject(dt, zeroValue(dt), "xml.Decoder")
		o.Ghost = map[string]interface{}{"src": a[0]}
		return &Ptr{Obj: o}
	}
	models["(*encoding/xml.Decoder).Decode"] = func(in *Interp, fn *ssa.Function, a []Value) Value {
		dp := a[0].(*Ptr)
		srcV := dp.Obj.Ghost["src"].(Value)
		src := ghostOf(srcV)
		var content *smt.Term
		if ghostKind(src) == "bytesreader" {
			content = in.stringOfBytes(src.Ghost["data"].(*SliceV))
		} else if ifc, ok := srcV.(*Iface); ok && ifc != nil && ifc.T != nil && types.TypeString(ifc.T, nil) == "*bytes.Buffer" {
			// decoding straight out of a bytes.Buffer: its current content
			content = in.bufGet(ifc.V)
		} else {
			in.end("unmodelled", "xml.Decoder over reader kind %q at %s", ghostKind(src), in.where())
		}
		dt := derefType(fn.Signature.Recv().Type())
		cr := in.load(dp).(*StructV).F[fieldIndex(dt, "CharsetReader")]
		conv := false
		if d := in.lookupDoc(content); d != nil && d.OtherEncoding && !isNilValue(cr) {
			// the decoder hands the declared charset and its input to the installed CharsetReader: the bytes are
			// decoded unchanged only if that function returns the very reader it was given
			srcV := dp.Obj.Ghost["src"].(Value)
			res, ok := in.tryCallValue(cr, []Value{smt.StrLit("ISO-8859-1"), srcV})
			if !ok {
				conv = true
			} else if t, isT := res.(Tuple); isT && len(t) == 2 {
				if ei, _ := t[1].(*Iface); ei != nil && ei.T != nil {
					return t[1]
				}
				if same := in.valEq(t[0], srcV); !(same.Const && same.K == smt.KBool && same.S == "true") {
					conv = true
				}
			}
			if conv {
				in.event("xml.Decoder: CharsetReader substitutes its own reader (content is transcoded)")
			}
		}
		return in.xmlUnmarshalConv(content, a[1], !isNilValue(cr), conv)
	}
	models["encoding/xml.Unmarshal"] = func(in *Interp, fn *ssa.Function, a []Value) Value {
		return in.xmlUnmarshal(in.stringOfBytes(a[0].(*SliceV)), a[1], false)
	}
	_ = func(in *Interp, fn *ssa.Function, a []Value) Value {
		content := in.stringOfBytes(a[0].(*SliceV))
		ifc, _ := a[1].(*Iface)
		in.event("xml.Unmarshal")
		in.X.noteAssumption("encoding/xml.Unmarshal modelled from the struct tags read from /repo's types at run time (XMLName, attr, a>b>c paths, chardata concatenation, slices append, pointer reuse, last attribute wins, typed attributes may fail); rejects documents declaring a non-UTF-8 encoding")
		if ifc == nil || ifc.T == nil {
			return in.opaqueError("xml-unmarshal-nil")
		}
		tp, _ := ifc.V.(*Ptr)
		pt, isPtr := ifc.T.Underlying().(*types.Pointer)
		if tp == nil || !isPtr {
			return in.opaqueError("xml-unmarshal-nonpointer")
		}
		d := in.lookupDoc(content)
		if d == nil || d.Root == nil || d.OtherEncoding {
			return in.opaqueError("xml-unmarshal")
		}
		um := &xmlm{in: in}
		um.nsStack = nil
		if !um.decodeInto(d.Root, tp, pt.Elem(), nil) {
			return in.opaqueError("xml-unmarshal:" + um.why)
		}
		return nilError()
	}
}

// xmlUnmarshal: the model of Unmarshal / Decoder.Decode (charsetReader: a CharsetReader is installed, so a
// declared non-UTF-8 encoding is not an error; the installed reader is assumed to pass bytes through).
func (in *Interp) xmlUnmarshal(content *smt.Term, target Value, charsetReader bool) Value {
	return in.xmlUnmarshalConv(content, target, charsetReader, false)
}

// tryCallValue runs a function value; an unmodelled / out-of-bound construct inside it is reported as !ok
// instead of ending the path (the caller then treats the result as unknown).
func (in *Interp) tryCallValue(fv Value, args []Value) (res Value, ok bool) {
	defer func() {
		if r := recover(); r != nil {
			if pe, isEnd := r.(*pathEnd); isEnd && (pe.Kind == "unmodelled" || pe.Kind == "unwind") {
				res, ok = nil, false
				return
			}
			panic(r)
		}
	}()
	return in.CallValue(fv, args), true
}

// charsetConv: text as it comes out of a transcoding CharsetReader (unknown function of the original text).
// Symbolic strings stand for ASCII text in these scenarios (which every single-byte charset maps to itself);
// non-ASCII content is the explicit constant part a scenario appends.
func charsetConv(v *smt.Term) *smt.Term {
	if !hasNonASCIIConst(v) {
		return v
	}
	return smt.UF("charset_conv", []string{"String"}, &smt.Term{K: smt.KStr}, v)
}

func hasNonASCIIConst(v *smt.Term) bool {
	if v.Const {
		for i := 0; i < len(v.Str); i++ {
			if v.Str[i] >= 0x80 {
				return true
			}
		}
		return false
	}
	for _, a := range v.Args {
		if a.K == smt.KStr && hasNonASCIIConst(a) {
			return true
		}
	}
	return false
}

func (in *Interp) xmlUnmarshalConv(content *smt.Term, target Value, charsetReader bool, conv bool) Value {
	ifc, _ := target.(*Iface)
	in.event("xml.Unmarshal")
	in.X.noteAssumption("encoding/xml.Unmarshal / Decoder.Decode modelled from the struct tags read from /repo's types at run time (XMLName, attr, a>b>c paths, chardata concatenation, slices append, pointer reuse, last attribute wins, typed attributes may fail); rejects documents declaring a non-UTF-8 encoding unless a CharsetReader is installed")
	if ifc == nil || ifc.T == nil {
		return in.opaqueError("xml-unmarshal-nil")
	}
	tp, _ := ifc.V.(*Ptr)
	pt, isPtr := ifc.T.Underlying().(*types.Pointer)
	if tp == nil || !isPtr {
		return in.opaqueError("xml-unmarshal-nonpointer")
	}
	d := in.lookupDoc(content)
	if d == nil && content.Op == "str.++" && len(content.Args) > 0 {
		// several documents one after the other (e.g. a reused buffer that still holds an earlier one): the decoder
		// reads the first element and never looks at what follows
		if first := in.lookupDoc(content.Args[0]); first != nil && first.Root != nil {
			in.event("xml.Unmarshal over concatenated documents decodes the first one")
			d = first
		}
	}
	if d == nil {
		// arbitrary bytes (e.g. a compressed stream tried as XML): the decoder fails, but only after it has decoded
		// whatever well-formed prefix the bytes happen to start with
		in.xmlPartialHavoc(tp, pt.Elem())
		return in.opaqueError("xml-unmarshal")
	}
	if d.Root == nil || (d.OtherEncoding && !charsetReader) {
		return in.opaqueError("xml-unmarshal")
	}
	um := &xmlm{in: in, conv: conv}
	if conv {
		in.X.noteAssumption("a CharsetReader that returns a reader of its own: every decoded text / attribute value with non-ASCII content is an unknown function charset_conv of the document's value (symbolic strings stand for ASCII text, non-ASCII content is the explicit constant a scenario appends)")
	}
	if !um.decodeInto(d.Root, tp, pt.Elem(), nil) {
		return in.opaqueError("xml-unmarshal:" + um.why)
	}
	return nilError()
}

// xmlPartialHavoc: a failing Unmarshal of bytes that are not a well-formed document may already have filled in
// fields of the destination: its string fields become arbitrary, a nil pointer-to-struct field may have been
// allocated and filled.
func (in *Interp) xmlPartialHavoc(tp *Ptr, T types.Type) {
	if _, ok := T.Underlying().(*types.Struct); !ok {
		return
	}
	in.X.noteAssumption("a failing xml.Unmarshal of bytes that are not a well-formed document may already have filled in the destination (the prefix it could decode): string fields arbitrary, nil pointer-to-struct fields possibly allocated")
	n := intGhost(in, "xmlpartial.n")
	in.Ghost["xmlpartial.n"] = n + 1
	fill := func(p *Ptr, FT types.Type, prefix string) {
		for _, f := range structFields(FT) {
			if b := basicOf(f.Type); b != nil && b.Info()&types.IsString != 0 && f.Kind != "xmlname" {
				name := fmt.Sprintf("%s.%d", prefix, f.Index)
				v := smt.NewVar(symName(in.fresh(name)), smt.KStr, 0)
				in.store(p.extend(f.Index), v)
			}
		}
	}
	fill(tp, T, fmt.Sprintf("xmlpartial.%d", n))
	in.Ghost["choice:xmlpartial.leak"] = 1
	for _, f := range structFields(T) {
		pt, ok := f.Type.Underlying().(*types.Pointer)
		if !ok {
			continue
		}
		if _, isStruct := pt.Elem().Underlying().(*types.Struct); !isStruct || isTimeType(pt.Elem()) {
			continue
		}
		if cur, _ := in.load(tp.extend(f.Index)).(*Ptr); cur != nil {
			continue
		}
		if in.Choose(2) == 1 {
			o := in.newObject(pt.Elem(), zeroValue(pt.Elem()), "xml-partial")
			np := &Ptr{Obj: o}
			fill(np, pt.Elem(), fmt.Sprintf("xmlpartial.%d.%d", n, f.Index))
			in.store(tp.extend(f.Index), np)
			in.Ghost["choice:xmlpartial.leak"] = 1
			in.event("xml.Unmarshal failed after allocating field %d", f.Index)
		}
	}
}

func (in *Interp) lookupMethodByName(t types.Type, name string) *ssa.Function {
	ms := in.P.Prog.MethodSets.MethodSet(t)
	for i := 0; i < ms.Len(); i++ {
		if ms.At(i).Obj().Name() == name {
			return in.P.Prog.MethodValue(ms.At(i))
		}
	}
	in.end("internal", "method %s not found on %s", name, t)
	return nil
}

// ---- xmlm: struct-tag-driven model of encoding/xml.Unmarshal ----

type xmlm struct {
	in      *Interp
	conv    bool // text passes through a transcoding CharsetReader
	why     string
	nsStack []map[string]*smt.Term
}

type xField struct {
	Index int
	Name  string   // local name to match (first path element for elements)
	Path  []string // remaining path below Name
	NS    string   // required namespace ("" = any)
	Kind  string   // "attr", "chardata", "innerxml", "element", "skip", "xmlname", "any"
	Type  types.Type
}

func parseXMLTag(f *types.Var, tag string) xField {
	xf := xField{Name: f.Name(), Kind: "element", Type: f.Type()}
	st := reflect.StructTag(tag)
	v, ok := st.Lookup("xml")
	if f.Name() == "XMLName" {
		xf.Kind = "xmlname"
		if ok {
			parts := strings.Split(v, ",")
			name := parts[0]
			if i := strings.LastIndex(name, " "); i >= 0 {
				xf.NS, name = name[:i], name[i+1:]
			}
			xf.Name = name
		} else {
			xf.Name = ""
		}
		return xf
	}
	if !f.Exported() {
		xf.Kind = "skip"
		return xf
	}
	if !ok {
		return xf
	}
	if v == "-" {
		xf.Kind = "skip"
		return xf
	}
	parts := strings.Split(v, ",")
	name := parts[0]
	for _, fl := range parts[1:] {
		switch fl {
		case "attr":
			xf.Kind = "attr"
		case "chardata", "cdata":
			xf.Kind = "chardata"
		case "innerxml":
			xf.Kind = "innerxml"
		case "comment":
			xf.Kind = "skip"
		case "any":
			xf.Kind = "any"
		}
	}
	if i := strings.LastIndex(name, " "); i >= 0 {
		xf.NS, name = name[:i], name[i+1:]
	}
	if name != "" {
		if xf.Kind == "element" && strings.Contains(name, ">") {
			ps := strings.Split(name, ">")
			xf.Name, xf.Path = ps[0], ps[1:]
		} else {
			xf.Name = name
		}
	}
	return xf
}

func structFields(t types.Type) []xField {
	st := t.Underlying().(*types.Struct)
	var out []xField
	for i := 0; i < st.NumFields(); i++ {
		xf := parseXMLTag(st.Field(i), st.Tag(i))
		xf.Index = i
		out = append(out, xf)
	}
	return out
}

// xmlNameOf: (local, ns) demanded by the XMLName field of a struct type, if any.
func xmlNameOf(t types.Type) (string, string, bool) {
	if p, ok := t.Underlying().(*types.Pointer); ok {
		t = p.Elem()
	}
	st, ok := t.Underlying().(*types.Struct)
	if !ok {
		return "", "", false
	}
	for i := 0; i < st.NumFields(); i++ {
		if st.Field(i).Name() == "XMLName" {
			xf := parseXMLTag(st.Field(i), st.Tag(i))
			return xf.Name, xf.NS, xf.Name != ""
		}
	}
	return "", "", false
}

func (um *xmlm) fail(format string, a ...interface{}) bool {
	um.why = fmt.Sprintf(format, a...)
	return false
}

// pushNS records the namespace declarations of an element; returns a pop function.
func (um *xmlm) pushNS(e *xElem) func() {
	m := map[string]*smt.Term{}
	for _, a := range e.Attrs {
		if a.Space.Const && a.Space.Str == "xmlns" && a.Key.Const {
			m[a.Key.Str] = a.Value
		} else if a.Space.Const && a.Space.Str == "" && a.Key.Const && a.Key.Str == "xmlns" {
			m[""] = a.Value
		}
	}
	um.nsStack = append(um.nsStack, m)
	return func() { um.nsStack = um.nsStack[:len(um.nsStack)-1] }
}

// nsOf resolves a prefix; undeclared prefixes resolve to the prefix itself (as encoding/xml does).
func (um *xmlm) nsOf(prefix string) *smt.Term {
	for i := len(um.nsStack) - 1; i >= 0; i-- {
		if v, ok := um.nsStack[i][prefix]; ok {
			return v
		}
	}
	return smt.StrLit(prefix)
}

func (um *xmlm) isReserved(a xAttr) bool {
	return a.Key.Const && strings.HasPrefix(a.Key.Str, "vx-")
}

// decodeInto decodes element p into the struct at target (type T).
func (um *xmlm) decodeInto(p *Ptr, target *Ptr, T types.Type, pre *xElem) bool {
	in := um.in
	e := pre
	if e == nil {
		e = in.viewElem(p)
	}
	if !e.Tag.Const || !e.Space.Const {
		return um.fail("symbolic element name")
	}
	pop := um.pushNS(e)
	defer pop()
	st, ok := T.Underlying().(*types.Struct)
	if !ok {
		// element decoded into a plain string: text content
		if b := basicOf(T); b != nil && b.Info()&types.IsString != 0 {
			tv := um.textOf(e)
			if um.conv && !tv.Const {
				tv = charsetConv(tv)
			}
			in.store(target, tv)
			return true
		}
		return um.fail("unsupported target type %s", T)
	}
	_ = st
	fields := structFields(T)
	// XMLName check
	for _, f := range fields {
		if f.Kind == "xmlname" && f.Name != "" {
			if e.Tag.Str != f.Name {
				return um.fail("expected element %s, have %s", f.Name, e.Tag.Str)
			}
			if f.NS != "" {
				ns := um.nsOf(e.Space.Str)
				if !in.Branch(smt.Eq(ns, smt.StrLit(f.NS))) {
					return um.fail("element %s in wrong namespace", f.Name)
				}
			}
		}
	}
	// attributes, in document order; later overwrites earlier
	for _, a := range e.Attrs {
		if !a.Key.Const || !a.Space.Const {
			return um.fail("symbolic attribute name")
		}
		if a.Space.Str == "xmlns" || (a.Space.Str == "" && a.Key.Str == "xmlns") || um.isReserved(a) {
			continue
		}
		for _, f := range fields {
			if f.Kind != "attr" || f.Name != a.Key.Str {
				continue
			}
			if f.NS != "" {
				if a.Space.Str == "" {
					continue
				}
				if !in.Branch(smt.Eq(um.nsOf(a.Space.Str), smt.StrLit(f.NS))) {
					continue
				}
			}
			if !um.setScalar(target.extend(f.Index), f.Type, a.Value) {
				return false
			}
		}
	}
	// children
	var text []*smt.Term
	for _, c := range e.Children {
		switch c.Kind {
		case "text":
			text = append(text, c.Text)
		case "elem":
			ce := in.viewElem(c.Elem)
			if !ce.Tag.Const || !ce.Space.Const {
				return um.fail("symbolic child name")
			}
			if !um.childInto(ce, target, fields) {
				return false
			}
		}
	}
	for _, f := range fields {
		if f.Kind == "chardata" {
			tv := smt.StrConcat(text...)
			if um.conv && !tv.Const {
				tv = charsetConv(tv)
			}
			in.store(target.extend(f.Index), tv)
		}
		if f.Kind == "innerxml" {
			// opaque bytes
			in.store(target.extend(f.Index), in.freshBytesValue("innerxml"))
		}
	}
	return true
}

func (in *Interp) freshBytesValue(prefix string) Value { return in.freshBytes(prefix) }

func (um *xmlm) textOf(e *xElem) *smt.Term {
	var parts []*smt.Term
	for _, c := range e.Children {
		if c.Kind == "text" {
			parts = append(parts, c.Text)
		}
	}
	return smt.StrConcat(parts...)
}

// childInto routes a child element to the field(s) whose name/path matches.
func (um *xmlm) childInto(ce *xElem, target *Ptr, fields []xField) bool {
	in := um.in
	for _, f := range fields {
		if f.Kind != "element" || f.Name != ce.Tag.Str {
			continue
		}
		if len(f.Path) > 0 {
			// a>b>c: descend into ce looking for the rest of the path
			pop := um.pushNS(ce)
			sub := xField{Index: f.Index, Name: f.Path[0], Path: f.Path[1:], NS: f.NS, Kind: "element", Type: f.Type}
			for _, cc := range ce.Children {
				if cc.Kind != "elem" {
					continue
				}
				cce := in.viewElem(cc.Elem)
				if !cce.Tag.Const {
					pop()
					return um.fail("symbolic child name")
				}
				if !um.childInto(cce, target, []xField{sub}) {
					pop()
					return false
				}
			}
			pop()
			continue
		}
		// namespace demanded by the tag or by the field type's XMLName
		if f.NS != "" {
			if !in.Branch(smt.Eq(um.nsOf(ce.Space.Str), smt.StrLit(f.NS))) {
				continue
			}
		}
		if !um.assignElement(ce, target.extend(f.Index), f.Type) {
			return false
		}
		return true
	}
	return true // unknown element: skipped
}

func (um *xmlm) assignElement(ce *xElem, fp *Ptr, ft types.Type) bool {
	in := um.in
	switch u := ft.Underlying().(type) {
	case *types.Struct:
		if isTimeType(ft) {
			return um.setScalar(fp, ft, um.textOf(ce))
		}
		return um.decodeInto(ce.P, fp, ft, ce)
	case *types.Pointer:
		cur, _ := in.load(fp).(*Ptr)
		if cur == nil {
			o := in.newObject(u.Elem(), zeroValue(u.Elem()), "xml-alloc")
			cur = &Ptr{Obj: o}
			in.store(fp, cur)
		}
		if _, isStruct := u.Elem().Underlying().(*types.Struct); isStruct && !isTimeType(u.Elem()) {
			return um.decodeInto(ce.P, cur, u.Elem(), ce)
		}
		return um.setScalar(cur, u.Elem(), um.textOf(ce))
	case *types.Slice:
		if b := basicOf(u.Elem()); b != nil && b.Kind() == types.Uint8 {
			in.store(fp, in.SymBytesOfStr(um.textOf(ce)))
			return true
		}
		// append a new element
		o := in.newObject(u.Elem(), zeroValue(u.Elem()), "xml-elem")
		np := &Ptr{Obj: o}
		if !um.assignElement(ce, np, u.Elem()) {
			return false
		}
		old := in.load(fp)
		one := &SliceV{Arr: in.newObject(types.NewArray(u.Elem(), 1), &ArrayV{E: []Value{in.load(np)}}, "xml-one"), Len: 1, Cap: 1}
		in.store(fp, in.appendOp(old, one, ft))
		return true
	case *types.Basic:
		return um.setScalar(fp, ft, um.textOf(ce))
	}
	return um.fail("unsupported field type %s", ft)
}

// setScalar stores a string value into a field of string / int / bool / time.Time (possibly pointer) type.
func (um *xmlm) setScalar(fp *Ptr, ft types.Type, v *smt.Term) bool {
	in := um.in
	if um.conv && !v.Const {
		v = charsetConv(v)
	}
	if isTimeType(ft) {
		if !in.Branch(ParseOK("2006-01-02T15:04:05Z07:00", v)) {
			return um.fail("bad time value")
		}
		in.store(fp, &TimeV{Inst: ParseInst("2006-01-02T15:04:05Z07:00", v), UTC: smt.False, Clock: "parsed"})
		return true
	}
	switch u := ft.Underlying().(type) {
	case *types.Pointer:
		o := in.newObject(u.Elem(), zeroValue(u.Elem()), "xml-alloc")
		np := &Ptr{Obj: o}
		if !um.setScalar(np, u.Elem(), v) {
			return false
		}
		in.store(fp, np)
		return true
	case *types.Basic:
		switch {
		case u.Info()&types.IsString != 0:
			in.store(fp, v)
			return true
		case u.Info()&types.IsInteger != 0:
			w, _ := bvWidth(u)
			if v.Const {
				n, err := strconv.ParseInt(strings.TrimSpace(v.Str), 10, 64)
				if err != nil {
					return um.fail("bad integer value")
				}
				in.store(fp, smt.BV(uint64(n), w))
				return true
			}
			ok := smt.UF("atoi_ok", []string{"String"}, &smt.Term{K: smt.KBool}, v)
			if !in.Branch(ok) {
				return um.fail("bad integer value")
			}
			val := smt.UF("atoi", []string{"String"}, &smt.Term{K: smt.KBV, W: 64}, v)
			in.store(fp, smt.Extract(val, w-1, 0))
			return true
		case u.Info()&types.IsBoolean != 0:
			if v.Const {
				bv, err := strconv.ParseBool(strings.TrimSpace(v.Str))
				if err != nil {
					return um.fail("bad bool value")
				}
				in.store(fp, smt.Bool(bv))
				return true
			}
			ok := smt.UF("atob_ok", []string{"String"}, &smt.Term{K: smt.KBool}, v)
			if !in.Branch(ok) {
				return um.fail("bad bool value")
			}
			in.store(fp, smt.UF("atob", []string{"String"}, &smt.Term{K: smt.KBool}, v))
			return true
		}
	case *types.Slice:
		if b := basicOf(u.Elem()); b != nil && b.Kind() == types.Uint8 {
			in.store(fp, in.SymBytesOfStr(v))
			return true
		}
	}
	return um.fail("unsupported scalar type %s", ft)
}

var _ = sort.Strings
