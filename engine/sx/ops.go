package sx

import (
	"go/token"
	"go/types"

	"verif/engine/smt"

	"golang.org/x/tools/go/ssa"
)

func basicOf(t types.Type) *types.Basic {
	b, _ := t.Underlying().(*types.Basic)
	return b
}

func (in *Interp) binop(op token.Token, x, y Value, xt, yt types.Type) Value {
	switch op {
	case token.EQL:
		return in.valEq(x, y)
	case token.NEQ:
		return smt.Not(in.valEq(x, y))
	}
	a, aok := x.(*smt.Term)
	b, bok := y.(*smt.Term)
	if !aok || !bok {
		in.end("unmodelled", "UNMODELLED binop %s on %T,%T at %s", op, x, y, in.where())
	}
	bt := basicOf(xt)
	if bt != nil && bt.Info()&types.IsString != 0 {
		switch op {
		case token.ADD:
			return smt.StrConcat(a, b)
		case token.LSS, token.LEQ, token.GTR, token.GEQ:
			if a.Const && b.Const {
				switch op {
				case token.LSS:
					return smt.Bool(a.Str < b.Str)
				case token.LEQ:
					return smt.Bool(a.Str <= b.Str)
				case token.GTR:
					return smt.Bool(a.Str > b.Str)
				default:
					return smt.Bool(a.Str >= b.Str)
				}
			}
			switch op {
			case token.LSS:
				return smt.App(smt.KBool, 0, "str.<", a, b)
			case token.LEQ:
				return smt.App(smt.KBool, 0, "str.<=", a, b)
			case token.GTR:
				return smt.App(smt.KBool, 0, "str.<", b, a)
			default:
				return smt.App(smt.KBool, 0, "str.<=", b, a)
			}
		}
		in.end("unmodelled", "string binop %s", op)
	}
	if a.K == smt.KBool {
		switch op {
		case token.AND, token.LAND:
			return smt.And(a, b)
		case token.OR, token.LOR:
			return smt.Or(a, b)
		case token.XOR:
			return smt.Not(smt.Eq(a, b))
		}
		in.end("unmodelled", "bool binop %s", op)
	}
	if a.K != smt.KBV {
		in.end("unmodelled", "binop %s on sort %s at %s", op, a.SortString(), in.where())
	}
	signed := false
	if bt != nil {
		_, signed = bvWidth(bt)
	}
	switch op {
	case token.SHL, token.SHR:
		// shift count may have a different width; counts >= width give 0 / sign fill in SMT too.
		cnt := b
		if cnt.W < a.W {
			cnt = smt.ZeroExt(cnt, a.W)
		} else if cnt.W > a.W {
			// saturate: if count >= 2^a.W treat as a.W
			if cnt.Const {
				u := cnt.U
				if u > uint64(a.W) {
					u = uint64(a.W)
				}
				cnt = smt.BV(u, a.W)
			} else {
				big := smt.BVUlt(smt.BV(uint64(a.W), cnt.W), cnt)
				cnt = smt.Ite(big, smt.BV(uint64(a.W), a.W), smt.Extract(cnt, a.W-1, 0))
			}
		}
		if op == token.SHL {
			return smt.BVShl(a, cnt)
		}
		if signed {
			return smt.BVAshr(a, cnt)
		}
		return smt.BVLshr(a, cnt)
	}
	if a.W != b.W {
		in.end("internal", "binop %s width mismatch %d vs %d at %s", op, a.W, b.W, in.where())
	}
	switch op {
	case token.ADD:
		return smt.BVAdd(a, b)
	case token.SUB:
		return smt.BVSub(a, b)
	case token.MUL:
		return smt.BVMul(a, b)
	case token.QUO:
		in.checkDivZero(b)
		if signed {
			return smt.BVSDiv(a, b)
		}
		return smt.BVUDiv(a, b)
	case token.REM:
		in.checkDivZero(b)
		if signed {
			return smt.BVSRem(a, b)
		}
		return smt.BVURem(a, b)
	case token.AND:
		return smt.BVAnd(a, b)
	case token.OR:
		return smt.BVOr(a, b)
	case token.XOR:
		return smt.BVXor(a, b)
	case token.AND_NOT:
		return smt.BVAndNot(a, b)
	case token.LSS:
		if signed {
			return smt.BVSlt(a, b)
		}
		return smt.BVUlt(a, b)
	case token.LEQ:
		if signed {
			return smt.BVSle(a, b)
		}
		return smt.BVUle(a, b)
	case token.GTR:
		if signed {
			return smt.BVSlt(b, a)
		}
		return smt.BVUlt(b, a)
	case token.GEQ:
		if signed {
			return smt.BVSle(b, a)
		}
		return smt.BVUle(b, a)
	}
	in.end("unmodelled", "UNMODELLED binop %s at %s", op, in.where())
	return nil
}

func (in *Interp) checkDivZero(b *smt.Term) {
	z := smt.Eq(b, smt.BV(0, b.W))
	if in.Branch(z) {
		in.goPanic("integer divide by zero")
	}
}

// valEq is Go's == as a Bool term.
func (in *Interp) valEq(x, y Value) *smt.Term {
	switch a := x.(type) {
	case *smt.Term:
		b, ok := y.(*smt.Term)
		if !ok {
			in.end("internal", "== on Term and %T", y)
		}
		return smt.Eq(a, b)
	case *Ptr:
		b, _ := y.(*Ptr)
		return smt.Bool(ptrEqual(a, b))
	case *Iface:
		b, ok := y.(*Iface)
		if !ok {
			in.end("internal", "== on Iface and %T", y)
		}
		an, bn := a == nil || a.T == nil, b == nil || b.T == nil
		if an || bn {
			return smt.Bool(an && bn)
		}
		if !types.Identical(a.T, b.T) {
			return smt.False
		}
		return in.valEq(a.V, b.V)
	case *StructV:
		b, ok := y.(*StructV)
		if !ok {
			in.end("internal", "== on struct and %T", y)
		}
		var cs []*smt.Term
		for i := range a.F {
			cs = append(cs, in.valEq(a.F[i], b.F[i]))
		}
		return smt.And(cs...)
	case *ArrayV:
		b := y.(*ArrayV)
		var cs []*smt.Term
		for i := range a.E {
			cs = append(cs, in.valEq(a.E[i], b.E[i]))
		}
		return smt.And(cs...)
	case *SliceV:
		// only comparison with nil is legal
		b, _ := y.(*SliceV)
		return smt.Bool(isNilValue(a) && isNilValue(b))
	case *MapObj:
		b, _ := y.(*MapObj)
		return smt.Bool(a == b)
	case *Closure:
		b, _ := y.(*Closure)
		return smt.Bool(a == nil && b == nil)
	case *TimeV:
		// == on time.Time compares the representation (wall, ext, *Location), not the instant: two values denoting
		// the same instant are equal only when both are held in UTC without a monotonic reading (the model's
		// "UTC" flag); the same value compared with itself is equal.
		b := y.(*TimeV)
		if a == b {
			return smt.True
		}
		in.X.noteAssumption("== on time.Time: same instant and both values held in UTC (struct comparison); values with zone offsets are never ==")
		return smt.And(smt.Eq(a.Inst, b.Inst), a.UTC, b.UTC)
	case *Opaque:
		b, ok := y.(*Opaque)
		return smt.Bool(ok && a == b)
	case nil:
		return smt.Bool(isNilValue(y))
	}
	in.end("unmodelled", "== on %T at %s", x, in.where())
	return nil
}

func (in *Interp) convert(x Value, from, to types.Type) Value {
	fb, tb := basicOf(from), basicOf(to)
	if t, ok := x.(*smt.Term); ok && tb != nil {
		switch {
		case t.K == smt.KBV && tb.Info()&types.IsInteger != 0:
			w, _ := bvWidth(tb)
			_, fs := bvWidth(fb)
			if w <= t.W {
				return smt.Extract(t, w-1, 0)
			}
			if fs {
				return smt.SignExt(t, w)
			}
			return smt.ZeroExt(t, w)
		case t.K == smt.KStr && tb.Info()&types.IsString != 0:
			return t
		case t.K == smt.KBV && tb.Info()&types.IsString != 0:
			// string(rune)
			if t.Const {
				return smt.StrLit(string(rune(t.SInt())))
			}
			in.end("unmodelled", "string(symbolic rune) at %s", in.where())
		case t.K == smt.KBV && tb.Info()&types.IsFloat != 0:
			return &Opaque{T: to, Tag: "float"}
		case t.K == smt.KBool:
			return t
		}
	}
	if op, ok := x.(*Opaque); ok {
		if tb != nil && tb.Info()&types.IsInteger != 0 {
			w, _ := bvWidth(tb)
			if in.lenient > 0 {
				return smt.BV(0, w)
			}
			in.end("unmodelled", "convert opaque(%s) to integer at %s", op.Tag, in.where())
		}
		return x
	}
	// string -> []byte / []rune
	if t, ok := x.(*smt.Term); ok && t.K == smt.KStr {
		if sl, ok := to.Underlying().(*types.Slice); ok {
			eb := basicOf(sl.Elem())
			if eb != nil && eb.Kind() == types.Uint8 {
				return in.bytesOfString(t)
			}
			if eb != nil && eb.Kind() == types.Int32 && t.Const {
				rs := []rune(t.Str)
				e := make([]Value, len(rs))
				for i, r := range rs {
					e[i] = smt.BV(uint64(r), 32)
				}
				o := in.newObject(types.NewArray(sl.Elem(), int64(len(rs))), &ArrayV{E: e}, "runes")
				return &SliceV{Arr: o, Len: len(rs), Cap: len(rs)}
			}
		}
	}
	// []byte -> string
	if s, ok := x.(*SliceV); ok && tb != nil && tb.Info()&types.IsString != 0 {
		return in.stringOfBytes(s)
	}
	// pointer conversions (unsafe) / identical underlying
	if types.Identical(from.Underlying(), to.Underlying()) {
		return x
	}
	if _, ok := x.(*Ptr); ok {
		return x
	}
	in.end("unmodelled", "UNMODELLED convert %s -> %s at %s", from, to, in.where())
	return nil
}

// ---- indexing ----

func (in *Interp) concreteInt(t *smt.Term, what string) int {
	if t.Const {
		return int(t.SInt())
	}
	// try to concretise via the solver: if the value is unique under pc use it; else unmodelled.
	in.end("unmodelled", "symbolic %s (%s) at %s", what, t.S, in.where())
	return 0
}

// boundsCheck forks on 0 <= idx < n (idx as signed 64-bit after extension); the failing side panics.
func (in *Interp) boundsCheck(idx, n *smt.Term, what string) {
	ok := smt.And(smt.BVSle(smt.BV(0, 64), idx), smt.BVSlt(idx, n))
	if !in.Branch(ok) {
		in.goPanic("index out of range (%s)", what)
	}
}

func (in *Interp) idx64(t *smt.Term, it types.Type) *smt.Term {
	if t.W == 64 {
		return t
	}
	b := basicOf(it)
	_, s := bvWidth(b)
	if s {
		return smt.SignExt(t, 64)
	}
	return smt.ZeroExt(t, 64)
}

func (in *Interp) indexAddr(x Value, idx *smt.Term, xt, it types.Type) Value {
	idx = in.idx64(idx, it)
	switch a := x.(type) {
	case *Ptr: // pointer to array
		if a == nil {
			in.goPanic("nil pointer dereference (index)")
		}
		at := xt.Underlying().(*types.Pointer).Elem().Underlying().(*types.Array)
		n := int(at.Len())
		if idx.Const {
			i := int(idx.SInt())
			if i < 0 || i >= n {
				in.goPanic("index out of range [%d] with length %d", i, n)
			}
			return a.extend(i)
		}
		in.boundsCheck(idx, smt.BV(uint64(n), 64), "array")
		i := in.concretiseIndex(idx, n)
		return a.extend(i)
	case *SliceV:
		if a.SB != nil {
			in.boundsCheck(idx, a.SB.Len, "symbolic []byte")
			return &Ptr{SB: a.SB, Idx: idx}
		}
		if idx.Const {
			i := int(idx.SInt())
			if i < 0 || i >= a.Len {
				in.goPanic("index out of range [%d] with length %d", i, a.Len)
			}
			return &Ptr{Obj: a.Arr, Path: []int{a.Off + i}}
		}
		in.boundsCheck(idx, smt.BV(uint64(a.Len), 64), "slice")
		i := in.concretiseIndex(idx, a.Len)
		return &Ptr{Obj: a.Arr, Path: []int{a.Off + i}}
	}
	in.end("internal", "IndexAddr on %T", x)
	return nil
}

// concretiseIndex forks over the possible values 0..n-1 of a symbolic in-range index.
func (in *Interp) concretiseIndex(idx *smt.Term, n int) int {
	for i := 0; i < n-1; i++ {
		if in.Branch(smt.Eq(idx, smt.BV(uint64(i), 64))) {
			return i
		}
	}
	return n - 1
}

func (in *Interp) indexValue(x Value, idx *smt.Term, xt types.Type) Value {
	switch a := x.(type) {
	case *ArrayV:
		idx = in.idx64(idx, types.Typ[types.Int])
		if idx.Const {
			i := int(idx.SInt())
			if i < 0 || i >= len(a.E) {
				in.goPanic("index out of range [%d] with length %d", i, len(a.E))
			}
			return a.E[i]
		}
		in.boundsCheck(idx, smt.BV(uint64(len(a.E)), 64), "array value")
		return a.E[in.concretiseIndex(idx, len(a.E))]
	case *smt.Term: // string index
		idx = in.idx64(idx, types.Typ[types.Int])
		if a.Const && idx.Const {
			i := int(idx.SInt())
			if i < 0 || i >= len(a.Str) {
				in.goPanic("string index out of range [%d] with length %d", i, len(a.Str))
			}
			return smt.BV(uint64(a.Str[i]), 8)
		}
		in.boundsCheck(idx, smt.StrLenBV(a), "string")
		code := smt.App(smt.KInt, 0, "str.to_code", smt.App(smt.KStr, 0, "str.at", a, smt.BV2Int(idx)))
		return smt.Int2BV(code, 8)
	}
	in.end("internal", "Index on %T", x)
	return nil
}

// ---- slices ----

func (in *Interp) makeSlice(i *ssa.MakeSlice, ln, cp *smt.Term) Value {
	st := i.Type().Underlying().(*types.Slice)
	if !ln.Const || !cp.Const {
		eb := basicOf(st.Elem())
		if eb != nil && eb.Kind() == types.Uint8 {
			// symbolic-length zeroed byte buffer
			name := in.fresh("mkslice")
			arr := smt.App(smt.KArr, 0, "(as const (Array (_ BitVec 64) (_ BitVec 8)))", smt.BV(0, 8))
			_ = name
			return &SliceV{SB: &SymBytes{Buf: &SymBuf{Arr: arr}, Off: smt.BV(0, 64), Len: ln, Cap: cp}}
		}
		if ln.Const {
			// concrete length, symbolic capacity (a pre-allocation hint): the runtime panics unless
			// len <= cap <= max allocation; otherwise the capacity only matters for aliasing of later appends
			// (the slice is created with capacity = length: every append copies)
			lo := smt.BV(ln.U, 64)
			hi := smt.BV(1<<40, 64) // well above anything the process could allocate for multi-byte elements
			if in.Branch(smt.Or(smt.BVSlt(cp, lo), smt.BVSlt(hi, cp))) {
				in.goPanic("makeslice: cap out of range")
			}
			in.X.noteAssumption("make([]T, n, cap) with a symbolic cap: panics when cap < n or cap > 2^40 elements; otherwise behaves as capacity n (appends copy)")
			cp = ln
		} else {
			in.end("unmodelled", "make slice with symbolic size at %s", in.where())
		}
	}
	n, c := int(ln.SInt()), int(cp.SInt())
	if n < 0 || c < n {
		in.goPanic("makeslice: len out of range")
	}
	e := make([]Value, c)
	z := zeroValue(st.Elem())
	for k := range e {
		e[k] = z
	}
	o := in.newObject(types.NewArray(st.Elem(), int64(c)), &ArrayV{E: e}, "makeslice")
	return &SliceV{Arr: o, Len: n, Cap: c}
}

func (in *Interp) sliceOp(fr *frame, i *ssa.Slice) Value {
	x := in.get(fr, i.X)
	var lo, hi, mx *smt.Term
	if i.Low != nil {
		lo = in.idx64(in.get(fr, i.Low).(*smt.Term), i.Low.Type())
	}
	if i.High != nil {
		hi = in.idx64(in.get(fr, i.High).(*smt.Term), i.High.Type())
	}
	if i.Max != nil {
		mx = in.idx64(in.get(fr, i.Max).(*smt.Term), i.Max.Type())
	}
	switch a := x.(type) {
	case *smt.Term: // string
		n := smt.StrLenBV(a)
		if lo == nil {
			lo = smt.BV(0, 64)
		}
		if hi == nil {
			hi = n
		}
		in.sliceBounds(lo, hi, n)
		if a.Const && lo.Const && hi.Const {
			return smt.StrLit(a.Str[lo.SInt():hi.SInt()])
		}
		return smt.StrSubstr(a, smt.BV2Int(lo), smt.BV2Int(smt.BVSub(hi, lo)))
	case *Ptr: // pointer to array
		if a == nil {
			in.goPanic("nil pointer dereference (slice of array pointer)")
		}
		arr := getPath(a.Obj.V, a.Path).(*ArrayV)
		n := len(arr.E)
		var base *Object
		off := 0
		if len(a.Path) == 0 {
			base = a.Obj
		} else {
			// array nested inside another object: only supported when it is the last path step of an array of arrays... keep simple
			in.end("unmodelled", "slice of nested array at %s", in.where())
		}
		l, h, m := 0, n, n
		if lo != nil {
			l = in.concreteInt(lo, "slice low")
		}
		if hi != nil {
			h = in.concreteInt(hi, "slice high")
		}
		if mx != nil {
			m = in.concreteInt(mx, "slice max")
		}
		if l < 0 || h < l || m < h || m > n {
			in.goPanic("slice bounds out of range [%d:%d:%d] with array length %d", l, h, m, n)
		}
		return &SliceV{Arr: base, Off: off + l, Len: h - l, Cap: m - l}
	case *SliceV:
		if a.SB != nil {
			sb := a.SB
			if lo == nil {
				lo = smt.BV(0, 64)
			}
			if hi == nil {
				hi = sb.Len
			}
			cp := sb.Cap
			if mx != nil {
				in.sliceBounds(hi, mx, sb.Cap)
				cp = mx
			}
			in.sliceBounds(lo, hi, cp)
			return &SliceV{SB: &SymBytes{Buf: sb.Buf, Off: smt.BVAdd(sb.Off, lo), Len: smt.BVSub(hi, lo), Cap: smt.BVSub(cp, lo)}}
		}
		l, h, m := 0, a.Len, a.Cap
		if lo != nil {
			l = in.concreteIntOrFork(lo, a.Cap)
		}
		if hi != nil {
			h = in.concreteIntOrFork(hi, a.Cap)
		}
		if mx != nil {
			m = in.concreteIntOrFork(mx, a.Cap)
		}
		if l < 0 || h < l || m < h || m > a.Cap {
			in.goPanic("slice bounds out of range [%d:%d:%d] with capacity %d", l, h, m, a.Cap)
		}
		if a.Arr == nil {
			return &SliceV{}
		}
		return &SliceV{Arr: a.Arr, Off: a.Off + l, Len: h - l, Cap: m - l}
	}
	in.end("internal", "Slice on %T", x)
	return nil
}

// concreteIntOrFork: a symbolic slice bound on a concrete slice is resolved by forking over 0..cap
// (out-of-range values take the panic branch).
func (in *Interp) concreteIntOrFork(t *smt.Term, cp int) int {
	if t.Const {
		return int(t.SInt())
	}
	ok := smt.And(smt.BVSle(smt.BV(0, 64), t), smt.BVSle(t, smt.BV(uint64(cp), 64)))
	if !in.Branch(ok) {
		in.goPanic("slice bounds out of range (symbolic bound %s, capacity %d)", t.S, cp)
	}
	return in.concretiseIndex(t, cp+1)
}

// sliceBounds forks on 0 <= lo <= hi <= n.
func (in *Interp) sliceBounds(lo, hi, n *smt.Term) {
	ok := smt.And(smt.BVSle(smt.BV(0, 64), lo), smt.BVSle(lo, hi), smt.BVSle(hi, n))
	if !in.Branch(ok) {
		in.goPanic("slice bounds out of range [%s:%s] with capacity %s", lo.S, hi.S, n.S)
	}
}

// ---- symbolic byte buffers ----

func (in *Interp) sbRead(sb *SymBytes, idx *smt.Term) *smt.Term {
	pos := smt.BVAdd(sb.Off, idx)
	if sb.Buf.Arr != nil {
		if sb.Buf.Base != nil {
			pos = smt.BVSub(pos, sb.Buf.Base)
		}
		return smt.Select(sb.Buf.Arr, pos)
	}
	s := sb.Buf.Str
	if s.Const && pos.Const {
		return smt.BV(uint64(s.Str[pos.U]), 8)
	}
	code := smt.App(smt.KInt, 0, "str.to_code", smt.App(smt.KStr, 0, "str.at", s, smt.BV2Int(pos)))
	if pos.Const && pos.U == 0 {
		if d, ok := in.Ghost["tree:"+s.S].(*boundDoc); ok && d.Root != nil {
			// the first byte of a well-formed document: '<' or white space before the root (byte order marks and
			// other prologues are outside the scenarios); the concretiser honours the choice
			in.X.noteAssumption("a scenario document starts with '<', with one white-space character before its root, or with a UTF-8 byte order mark (first byte 0xEF)")
			var alts []*smt.Term
			for _, c := range []int64{'<', ' ', '\n', '\t', '\r', 0xEF} {
				alts = append(alts, smt.Eq(code, smt.IntLit(c)))
			}
			in.assumeOnce(smt.Or(alts...))
			if ir := in.inputIdx[d.Name]; ir != nil {
				ir.Extra["first_byte"] = smt.Int2BV(code, 8)
			}
		}
	}
	return smt.Int2BV(code, 8)
}

func (in *Interp) sbWrite(sb *SymBytes, idx *smt.Term, v *smt.Term) {
	if sb.Buf.Arr == nil {
		in.end("unmodelled", "write into string-backed symbolic bytes at %s", in.where())
	}
	pos := smt.BVAdd(sb.Off, idx)
	if sb.Buf.Base != nil {
		pos = smt.BVSub(pos, sb.Buf.Base)
	}
	sb.Buf.Arr = smt.StoreArr(sb.Buf.Arr, pos, v)
}

// bytesOfString: []byte(s).
func (in *Interp) bytesOfString(s *smt.Term) Value {
	if s.Const && len(s.Str) <= 4096 {
		n := len(s.Str)
		e := make([]Value, n)
		for i := 0; i < n; i++ {
			e[i] = smt.BV(uint64(s.Str[i]), 8)
		}
		o := in.newObject(types.NewArray(types.Typ[types.Uint8], int64(n)), &ArrayV{E: e}, "bytes-of-const")
		return &SliceV{Arr: o, Len: n, Cap: n}
	}
	return in.SymBytesOfStr(s)
}

// BLen is the byte length of a blob content term as a signed 64-bit value: an uninterpreted function
// (kept apart from str.len so that length reasoning stays in the bit-vector theory).
func BLen(s *smt.Term) *smt.Term {
	if s.Const {
		return smt.BV(uint64(len(s.Str)), 64)
	}
	return smt.UF("blen", []string{"String"}, &smt.Term{K: smt.KBV, W: 64}, s)
}

// SymBytesOfStr wraps an SMT string as an (immutable-content) byte slice.
func (in *Interp) SymBytesOfStr(s *smt.Term) *SliceV {
	n := BLen(s)
	if !n.Const {
		in.assumeOnce(smt.BVSle(smt.BV(0, 64), n))
	}
	return &SliceV{SB: &SymBytes{Buf: &SymBuf{Str: s, Origin: s}, Off: smt.BV(0, 64), Len: n, Cap: n}}
}

func (in *Interp) assumeOnce(c *smt.Term) {
	for _, p := range in.PC {
		if p.S == c.S {
			return
		}
	}
	in.Assume(c)
}

// StrOfBytes returns the content of a byte slice as an SMT string term.
func (in *Interp) stringOfBytes(s *SliceV) *smt.Term {
	if s.SB != nil {
		sb := s.SB
		in.notePooledView(sb)
		if sb.Buf.Str != nil {
			if sb.Off.Const && sb.Off.U == 0 && sb.Len.S == BLen(sb.Buf.Str).S {
				return sb.Buf.Str
			}
			return smt.StrSubstr(sb.Buf.Str, smt.BV2Int(sb.Off), smt.BV2Int(sb.Len))
		}
		// array-backed: opaque string function of (array, off, len)
		off := sb.Off
		if sb.Buf.Base != nil {
			off = smt.BVSub(off, sb.Buf.Base)
		}
		return smt.UF("bytes2str", []string{"(Array (_ BitVec 64) (_ BitVec 8))", "(_ BitVec 64)", "(_ BitVec 64)"}, &smt.Term{K: smt.KStr}, sb.Buf.Arr, off, sb.Len)
	}
	if s.Arr == nil || s.Len == 0 {
		return smt.StrLit("")
	}
	arr := s.Arr.V.(*ArrayV)
	allConst := true
	buf := make([]byte, s.Len)
	for i := 0; i < s.Len; i++ {
		t := arr.E[s.Off+i].(*smt.Term)
		if !t.Const {
			allConst = false
			break
		}
		buf[i] = byte(t.U)
	}
	if allConst {
		return smt.StrLit(string(buf))
	}
	parts := make([]*smt.Term, s.Len)
	for i := 0; i < s.Len; i++ {
		t := arr.E[s.Off+i].(*smt.Term)
		if t.Const {
			parts[i] = smt.StrLit(string([]byte{byte(t.U)}))
		} else {
			parts[i] = smt.App(smt.KStr, 0, "str.from_code", smt.BV2Int(t))
		}
	}
	return smt.StrConcat(parts...)
}

// ---- maps ----

func (in *Interp) mapFind(m *MapObj, k Value) int {
	for i, e := range m.Entries {
		eq := in.valEq(e.K, k)
		if in.Branch(eq) {
			return i
		}
	}
	return -1
}

func (in *Interp) lookup(i *ssa.Lookup, x, k Value) Value {
	if s, ok := x.(*smt.Term); ok { // string index
		return in.indexValue(s, k.(*smt.Term), i.X.Type())
	}
	m, _ := x.(*MapObj)
	mt := i.X.Type().Underlying().(*types.Map)
	found := -1
	if m != nil {
		found = in.mapFind(m, k)
	}
	var v Value
	if found >= 0 {
		v = m.Entries[found].V
	} else {
		v = zeroValue(mt.Elem())
	}
	if i.CommaOk {
		return Tuple{v, smt.Bool(found >= 0)}
	}
	return v
}

func (in *Interp) mapUpdate(x, k, v Value) {
	m, _ := x.(*MapObj)
	if m == nil {
		in.goPanic("assignment to entry in nil map")
	}
	if j := in.mapFind(m, k); j >= 0 {
		m.Entries[j].V = v
		return
	}
	m.Entries = append(m.Entries, MapEntry{K: k, V: v})
}

func (in *Interp) mapDelete(x, k Value) {
	m, _ := x.(*MapObj)
	if m == nil {
		return
	}
	if j := in.mapFind(m, k); j >= 0 {
		m.Entries = append(append([]MapEntry{}, m.Entries[:j]...), m.Entries[j+1:]...)
	}
}

// ---- range ----

type rangeIter struct {
	m    *MapObj
	snap []MapEntry
	s    *smt.Term
	pos  int
}

func (in *Interp) makeRange(x Value, t types.Type) Value {
	switch a := x.(type) {
	case *MapObj:
		it := &rangeIter{m: a}
		if a != nil {
			it.snap = append([]MapEntry{}, a.Entries...)
		}
		return &Opaque{Tag: "rangeiter", Data: map[string]interface{}{"it": it}}
	case *smt.Term:
		if !a.Const {
			in.end("unmodelled", "range over symbolic string at %s", in.where())
		}
		return &Opaque{Tag: "rangeiter", Data: map[string]interface{}{"it": &rangeIter{s: a}}}
	}
	in.end("unmodelled", "range over %T", x)
	return nil
}

func (in *Interp) rangeNext(itv Value, n *ssa.Next) Value {
	it := itv.(*Opaque).Data["it"].(*rangeIter)
	if n.IsString {
		s := it.s.Str
		if it.pos >= len(s) {
			return Tuple{smt.False, smt.BV(0, 64), smt.BV(0, 32)}
		}
		rs := []rune(s[it.pos:])
		r := rs[0]
		p := it.pos
		it.pos += len(string(r))
		return Tuple{smt.True, smt.BV(uint64(p), 64), smt.BV(uint64(r), 32)}
	}
	tt := n.Type().(*types.Tuple)
	if it.pos >= len(it.snap) {
		return Tuple{smt.False, zeroValue(tt.At(1).Type()), zeroValue(tt.At(2).Type())}
	}
	e := it.snap[it.pos]
	it.pos++
	return Tuple{smt.True, e.K, e.V}
}

// ---- builtins ----

func (in *Interp) lenOf(v Value) *smt.Term {
	switch a := v.(type) {
	case *smt.Term:
		return smt.StrLenBV(a)
	case *SliceV:
		if a.SB != nil {
			return a.SB.Len
		}
		return smt.BV(uint64(a.Len), 64)
	case *MapObj:
		if a == nil {
			return smt.BV(0, 64)
		}
		return smt.BV(uint64(len(a.Entries)), 64)
	case *Ptr:
		if a == nil {
			return smt.BV(0, 64)
		}
		if c, ok := a.Obj.V.(*ChanV); ok && len(a.Path) == 0 {
			return smt.BV(uint64(len(c.Buf)), 64)
		}
		if arr, ok := getPath(a.Obj.V, a.Path).(*ArrayV); ok {
			return smt.BV(uint64(len(arr.E)), 64)
		}
	case *ArrayV:
		return smt.BV(uint64(len(a.E)), 64)
	}
	in.end("unmodelled", "len of %T at %s", v, in.where())
	return nil
}

func (in *Interp) builtin(fr *frame, c *ssa.CallCommon, name string, args []Value) Value {
	switch name {
	case "len":
		return in.lenOf(args[0])
	case "cap":
		switch a := args[0].(type) {
		case *SliceV:
			if a.SB != nil {
				return a.SB.Cap
			}
			return smt.BV(uint64(a.Cap), 64)
		case *Ptr:
			if a != nil {
				if c, ok := a.Obj.V.(*ChanV); ok {
					return smt.BV(uint64(c.Cap), 64)
				}
			}
		}
		return in.lenOf(args[0])
	case "close":
		ch := in.chanOf(args[0])
		if ch.Closed {
			in.goPanic("close of closed channel")
		}
		ch.Closed = true
		return nil
	case "append":
		return in.appendOp(args[0], args[1], c.Args[0].Type())
	case "copy":
		return in.copyOp(args[0], args[1])
	case "delete":
		in.mapDelete(args[0], args[1])
		return nil
	case "panic":
		panic(&GoPanic{V: args[0], Msg: "panic: " + describe(args[0]), At: in.where()})
	case "recover":
		return &Iface{}
	case "print", "println":
		return nil
	case "min", "max":
		a, b := args[0].(*smt.Term), args[1].(*smt.Term)
		bt := basicOf(c.Args[0].Type())
		_, s := bvWidth(bt)
		var lt *smt.Term
		if s {
			lt = smt.BVSlt(a, b)
		} else {
			lt = smt.BVUlt(a, b)
		}
		if name == "min" {
			return smt.Ite(lt, a, b)
		}
		return smt.Ite(lt, b, a)
	case "ssa:wrapnilchk":
		if isNilValue(args[0]) {
			in.goPanic("value method called via nil pointer")
		}
		return args[0]
	case "clear":
		if m, ok := args[0].(*MapObj); ok && m != nil {
			m.Entries = nil
		}
		return nil
	}
	in.end("unmodelled", "UNMODELLED builtin %s at %s", name, in.where())
	return nil
}

func (in *Interp) appendOp(dst, src Value, st types.Type) Value {
	d := dst.(*SliceV)
	// append([]byte, string...)
	if s, ok := src.(*smt.Term); ok {
		src = in.bytesOfString(s)
	}
	s := src.(*SliceV)
	if d.SB != nil || s.SB != nil {
		// symbolic bytes: result content = concat as string when both string-backed or d empty
		if d.SB == nil && d.Len == 0 {
			return s
		}
		if s.SB == nil && s.Len == 0 {
			return d
		}
		ds, ss := in.stringOfBytes(d), in.stringOfBytes(s)
		return in.SymBytesOfStr(smt.StrConcat(ds, ss))
	}
	if s.Len == 0 {
		return d
	}
	sa := s.Arr.V.(*ArrayV)
	need := d.Len + s.Len
	if d.Arr != nil && need <= d.Cap {
		// in place
		da := d.Arr.V.(*ArrayV)
		e := make([]Value, len(da.E))
		copy(e, da.E)
		for k := 0; k < s.Len; k++ {
			e[d.Off+d.Len+k] = sa.E[s.Off+k]
		}
		d.Arr.V = &ArrayV{E: e}
		return &SliceV{Arr: d.Arr, Off: d.Off, Len: need, Cap: d.Cap}
	}
	nc := need
	if d.Cap*2 > nc {
		nc = d.Cap * 2
	}
	if nc < 4 {
		nc = 4
	}
	et := st.Underlying().(*types.Slice).Elem()
	e := make([]Value, nc)
	if d.Arr != nil {
		da := d.Arr.V.(*ArrayV)
		copy(e, da.E[d.Off:d.Off+d.Len])
	}
	for k := 0; k < s.Len; k++ {
		e[d.Len+k] = sa.E[s.Off+k]
	}
	z := zeroValue(et)
	for k := need; k < nc; k++ {
		e[k] = z
	}
	o := in.newObject(types.NewArray(et, int64(nc)), &ArrayV{E: e}, "append")
	return &SliceV{Arr: o, Len: need, Cap: nc}
}

func (in *Interp) copyOp(dst, src Value) Value {
	d := dst.(*SliceV)
	if s, ok := src.(*smt.Term); ok {
		src = in.bytesOfString(s)
	}
	s := src.(*SliceV)
	if d.SB != nil || s.SB != nil {
		in.end("unmodelled", "copy on symbolic bytes at %s", in.where())
	}
	n := d.Len
	if s.Len < n {
		n = s.Len
	}
	if n == 0 {
		return smt.BV(0, 64)
	}
	sa := s.Arr.V.(*ArrayV)
	da := d.Arr.V.(*ArrayV)
	e := make([]Value, len(da.E))
	copy(e, da.E)
	tmp := make([]Value, n)
	copy(tmp, sa.E[s.Off:s.Off+n])
	copy(e[d.Off:d.Off+n], tmp)
	d.Arr.V = &ArrayV{E: e}
	return smt.BV(uint64(n), 64)
}
