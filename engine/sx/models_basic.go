package sx

import (
	"go/types"
	"strings"

	"verif/engine/smt"

	"golang.org/x/tools/go/ssa"
)

func termArg(in *Interp, v Value) *smt.Term {
	t, ok := v.(*smt.Term)
	if !ok {
		in.end("internal", "expected scalar term, got %T at %s", v, in.where())
	}
	return t
}

// variadicArgs unpacks the []interface{} argument of fmt-style functions.
func (in *Interp) variadicArgs(v Value) []Value {
	s, _ := v.(*SliceV)
	if s == nil || s.Arr == nil {
		return nil
	}
	arr := s.Arr.V.(*ArrayV)
	return arr.E[s.Off : s.Off+s.Len]
}

func init() {
	models["fmt.Errorf"] = func(in *Interp, fn *ssa.Function, a []Value) Value {
		f := termArg(in, a[0])
		tag := "errorf"
		if f.Const {
			tag = f.Str
			if !strings.Contains(f.Str, "%") {
				return in.newErrorValue(f, tag)
			}
		}
		in.event("fmt.Errorf %q", tag)
		e := in.opaqueError("errorf")
		return e
	}
	models["fmt.Sprintf"] = func(in *Interp, fn *ssa.Function, a []Value) Value {
		f := termArg(in, a[0])
		if f.Const && !strings.Contains(f.Str, "%") {
			return f
		}
		if f.Const {
			if r := in.sprintfSpecial(f.Str, in.variadicArgs(a[1])); r != nil {
				return r
			}
		}
		return smt.NewVar(symName(in.fresh("sprintf")), smt.KStr, 0)
	}
	models["fmt.Sprint"] = func(in *Interp, fn *ssa.Function, a []Value) Value {
		return smt.NewVar(symName(in.fresh("sprint")), smt.KStr, 0)
	}
	models["fmt.Println"] = func(in *Interp, fn *ssa.Function, a []Value) Value {
		return Tuple{smt.BV(0, 64), nilError()}
	}
	models["fmt.Printf"] = models["fmt.Println"]

	// ---- strings (exact SMT definitions where cheap; constants natively) ----
	models["strings.IndexByte"] = func(in *Interp, fn *ssa.Function, a []Value) Value {
		s, c := termArg(in, a[0]), termArg(in, a[1])
		if s.Const && c.Const {
			return smt.BV(uint64(int64(strings.IndexByte(s.Str, byte(c.U)))), 64)
		}
		if !c.Const {
			in.end("unmodelled", "strings.IndexByte with symbolic byte at %s", in.where())
		}
		idx := smt.StrIndexOf(s, smt.StrLit(string([]byte{byte(c.U)})), smt.IntLit(0))
		return smt.Ite(smt.IntLt(idx, smt.IntLit(0)), smt.BV(^uint64(0), 64), smt.Int2BV(idx, 64))
	}
	models["strings.Index"] = func(in *Interp, fn *ssa.Function, a []Value) Value {
		s, sub := termArg(in, a[0]), termArg(in, a[1])
		if s.Const && sub.Const {
			return smt.BV(uint64(int64(strings.Index(s.Str, sub.Str))), 64)
		}
		idx := smt.StrIndexOf(s, sub, smt.IntLit(0))
		return smt.Ite(smt.IntLt(idx, smt.IntLit(0)), smt.BV(^uint64(0), 64), smt.Int2BV(idx, 64))
	}
	models["strings.Contains"] = func(in *Interp, fn *ssa.Function, a []Value) Value {
		return smt.StrContains(termArg(in, a[0]), termArg(in, a[1]))
	}
	models["strings.HasPrefix"] = func(in *Interp, fn *ssa.Function, a []Value) Value {
		return smt.StrPrefixOf(termArg(in, a[1]), termArg(in, a[0]))
	}
	models["strings.HasSuffix"] = func(in *Interp, fn *ssa.Function, a []Value) Value {
		return smt.StrSuffixOf(termArg(in, a[1]), termArg(in, a[0]))
	}
	models["strings.TrimSuffix"] = func(in *Interp, fn *ssa.Function, a []Value) Value {
		s, suf := termArg(in, a[0]), termArg(in, a[1])
		if s.Const && suf.Const {
			return smt.StrLit(strings.TrimSuffix(s.Str, suf.Str))
		}
		n := smt.IntSub(smt.StrLen(s), smt.StrLen(suf))
		return smt.Ite(smt.StrSuffixOf(suf, s), smt.StrSubstr(s, smt.IntLit(0), n), s)
	}
	models["strings.TrimPrefix"] = func(in *Interp, fn *ssa.Function, a []Value) Value {
		s, pre := termArg(in, a[0]), termArg(in, a[1])
		if s.Const && pre.Const {
			return smt.StrLit(strings.TrimPrefix(s.Str, pre.Str))
		}
		n := smt.IntSub(smt.StrLen(s), smt.StrLen(pre))
		return smt.Ite(smt.StrPrefixOf(pre, s), smt.StrSubstr(s, smt.StrLen(pre), n), s)
	}
	// case folding / trimming: uninterpreted, with the axioms that matter for "relaxed comparison" variants:
	// f(x) may equal f(y) for x != y (non-injective), so a relaxed comparison is distinguishable from ==.
	// strings.TrimRight / TrimLeft with a constant single-character cutset
	for _, side := range []string{"Right", "Left"} {
		side := side
		models["strings.Trim"+side] = func(in *Interp, fn *ssa.Function, a []Value) Value {
			s, cs := termArg(in, a[0]), termArg(in, a[1])
			if s.Const && cs.Const {
				if side == "Right" {
					return smt.StrLit(strings.TrimRight(s.Str, cs.Str))
				}
				return smt.StrLit(strings.TrimLeft(s.Str, cs.Str))
			}
			if !cs.Const || len(cs.Str) != 1 {
				in.end("unmodelled", "strings.Trim%s with cutset %s at %s", side, cs.S, in.where())
			}
			in.X.noteAssumption("strings.TrimRight/TrimLeft(s, single character): s itself when s does not end/start with that character, otherwise an uninterpreted shorter string")
			var has *smt.Term
			if side == "Right" {
				has = smt.StrSuffixOf(cs, s)
			} else {
				has = smt.StrPrefixOf(cs, s)
			}
			if in.Branch(has) {
				return smt.UF("trim"+side+"_"+symName(cs.Str), []string{"String"}, &smt.Term{K: smt.KStr}, s)
			}
			return s
		}
	}
	models["strings.ToLower"] = func(in *Interp, fn *ssa.Function, a []Value) Value {
		s := termArg(in, a[0])
		if s.Const {
			return smt.StrLit(strings.ToLower(s.Str))
		}
		in.X.noteAssumption("strings.ToLower/ToUpper/EqualFold on symbolic strings: SMT-LIB str.to_lower / str.to_upper (ASCII letters; Unicode case folding outside)")
		return smt.App(smt.KStr, 0, "str.to_lower", s)
	}
	models["strings.ToUpper"] = func(in *Interp, fn *ssa.Function, a []Value) Value {
		s := termArg(in, a[0])
		if s.Const {
			return smt.StrLit(strings.ToUpper(s.Str))
		}
		in.X.noteAssumption("strings.ToLower/ToUpper/EqualFold on symbolic strings: SMT-LIB str.to_lower / str.to_upper (ASCII letters; Unicode case folding outside)")
		return smt.App(smt.KStr, 0, "str.to_upper", s)
	}
	models["strings.TrimSpace"] = func(in *Interp, fn *ssa.Function, a []Value) Value {
		s := termArg(in, a[0])
		if s.Const {
			return smt.StrLit(strings.TrimSpace(s.Str))
		}
		in.X.noteAssumption("strings.TrimSpace: uninterpreted function of the string with the lemmas: the result is empty iff the string consists of ASCII white space only; the string itself when it neither starts nor ends with ASCII white space (Unicode spaces outside)")
		t := smt.UF("str_trimspace", []string{"String"}, &smt.Term{K: smt.KStr}, s)
		ws := `(re.union (str.to_re " ") (str.to_re "\u{9}") (str.to_re "\u{a}") (str.to_re "\u{b}") (str.to_re "\u{c}") (str.to_re "\u{d}"))`
		allWS := smt.App(smt.KBool, 0, "str.in_re", s, &smt.Term{K: smt.KBool, S: "(re.* " + ws + ")"})
		edgeWS := smt.App(smt.KBool, 0, "str.in_re", s, &smt.Term{K: smt.KBool, S: "(re.union (re.++ " + ws + " re.all) (re.++ re.all " + ws + "))"})
		in.assumeOnce(smt.Eq(smt.Eq(t, smt.StrLit("")), allWS))
		in.assumeOnce(smt.Implies(smt.Not(edgeWS), smt.Eq(t, s)))
		return t
	}
	models["strings.EqualFold"] = func(in *Interp, fn *ssa.Function, a []Value) Value {
		s, t := termArg(in, a[0]), termArg(in, a[1])
		if s.Const && t.Const {
			return smt.Bool(strings.EqualFold(s.Str, t.Str))
		}
		in.X.noteAssumption("strings.ToLower/ToUpper/EqualFold on symbolic strings: SMT-LIB str.to_lower / str.to_upper (ASCII letters; Unicode case folding outside)")
		return smt.Eq(smt.App(smt.KStr, 0, "str.to_lower", s), smt.App(smt.KStr, 0, "str.to_lower", t))
	}
	models["strings.Compare"] = func(in *Interp, fn *ssa.Function, a []Value) Value {
		s, t := termArg(in, a[0]), termArg(in, a[1])
		lt := smt.App(smt.KBool, 0, "str.<", s, t)
		return smt.Ite(smt.Eq(s, t), smt.BV(0, 64), smt.Ite(lt, smt.BV(^uint64(0), 64), smt.BV(1, 64)))
	}
}

func (x *Explorer) noteAssumption(s string) {
	x.mu.Lock()
	x.Assumptions[s] = true
	x.mu.Unlock()
}

// sprintfSpecial handles format strings the repo uses where the result matters.
func (in *Interp) sprintfSpecial(format string, args []Value) *smt.Term {
	if format == "%x-%x-%x-%x-%x" && len(args) == 5 {
		var parts []*smt.Term
		for i, a := range args {
			if i > 0 {
				parts = append(parts, smt.StrLit("-"))
			}
			ifc, ok := a.(*Iface)
			if !ok {
				return nil
			}
			sl, ok := ifc.V.(*SliceV)
			if !ok || sl.SB != nil {
				return nil
			}
			if sl.Len == 0 {
				continue
			}
			arr := sl.Arr.V.(*ArrayV)
			for k := 0; k < sl.Len; k++ {
				b := arr.E[sl.Off+k].(*smt.Term)
				parts = append(parts, HexNibble(smt.Extract(b, 7, 4)), HexNibble(smt.Extract(b, 3, 0)))
			}
		}
		in.X.noteAssumption("fmt.Sprintf(\"%x\", []byte): lower-case hex rendering, two digits per byte (stdlib contract)")
		return smt.StrConcat(parts...)
	}
	return nil
}

// HexNibble renders a 4-bit value as one lower-case hex character (nested ite).
func HexNibble(n *smt.Term) *smt.Term {
	if n.Const {
		return smt.StrLit(string("0123456789abcdef"[n.U&15]))
	}
	t := smt.StrLit("f")
	for v := 14; v >= 0; v-- {
		t = smt.Ite(smt.Eq(n, smt.BV(uint64(v), 4)), smt.StrLit(string("0123456789abcdef"[v])), t)
	}
	return t
}

// Len64Term: math/bits.Len64 as a term (position of the highest set bit + 1, 0 for 0).
func Len64Term(x *smt.Term) *smt.Term {
	t := smt.BV(0, 64)
	for i := 0; i < 64; i++ {
		t = smt.Ite(smt.Eq(smt.Extract(x, i, i), smt.BV(1, 1)), smt.BV(uint64(i+1), 64), t)
	}
	return t
}

func init() {
	models["math/bits.Len64"] = func(in *Interp, fn *ssa.Function, a []Value) Value {
		x := termArg(in, a[0])
		if x.Const {
			n := 0
			for v := x.U; v != 0; v >>= 1 {
				n++
			}
			return smt.BV(uint64(n), 64)
		}
		return Len64Term(x)
	}
	models["math/bits.Len"] = func(in *Interp, fn *ssa.Function, a []Value) Value {
		return models["math/bits.Len64"](in, fn, a)
	}
	// strconv.AppendUint(dst, v, 16): the hexadecimal digits of v without leading zeros (one digit for 0);
	// the number of digits is decided by case split
	models["strconv.AppendUint"] = func(in *Interp, fn *ssa.Function, a []Value) Value {
		v, base := termArg(in, a[1]), termArg(in, a[2])
		if !base.Const || base.U != 16 {
			in.end("unmodelled", "strconv.AppendUint with base %s at %s", base.S, in.where())
		}
		d := 1
		if v.Const {
			for x := v.U >> 4; x != 0; x >>= 4 {
				d++
			}
		} else {
			for d = 1; d < 16; d++ {
				if in.Branch(smt.BVUlt(v, smt.BV(uint64(1)<<(4*uint(d)), 64))) {
					break
				}
			}
		}
		elems := make([]Value, d)
		for k := 0; k < d; k++ {
			sh := 4 * (d - 1 - k)
			nib := smt.Extract(v, sh+3, sh)
			z := smt.ZeroExt(nib, 8)
			elems[k] = smt.Ite(smt.BVUlt(nib, smt.BV(10, 4)), smt.BVAdd(z, smt.BV('0', 8)), smt.BVAdd(z, smt.BV('a'-10, 8)))
		}
		bt := fn.Signature.Params().At(0).Type()
		et := bt.Underlying().(*types.Slice).Elem()
		one := &SliceV{Arr: in.newObject(types.NewArray(et, int64(d)), &ArrayV{E: elems}, "hexdigits"), Len: d, Cap: d}
		return in.appendOp(a[0], one, bt)
	}
}

func init() {
	// crypto/subtle.ConstantTimeCompare: 1 iff equal length and equal content
	models["crypto/subtle.ConstantTimeCompare"] = func(in *Interp, fn *ssa.Function, a []Value) Value {
		x, y := a[0].(*SliceV), a[1].(*SliceV)
		eq := smt.And(smt.Eq(in.lenOf(x), in.lenOf(y)), smt.Eq(in.stringOfBytes(x), in.stringOfBytes(y)))
		return smt.Ite(eq, smt.BV(1, 64), smt.BV(0, 64))
	}
	// encoding/hex.Encode(dst, src): two lower-case digits per byte (concrete-length src)
	models["encoding/hex.Encode"] = func(in *Interp, fn *ssa.Function, a []Value) Value {
		dst, src := a[0].(*SliceV), a[1].(*SliceV)
		if src.SB != nil || dst.SB != nil {
			in.end("unmodelled", "hex.Encode over symbolic-length buffers at %s", in.where())
		}
		if dst.Len < 2*src.Len {
			in.goPanic("hex.Encode: destination too short")
		}
		sa := src.Arr.V.(*ArrayV)
		da := in.load(&Ptr{Obj: dst.Arr}).(*ArrayV)
		ne := append([]Value{}, da.E...)
		nib := func(n *smt.Term) *smt.Term {
			z := smt.ZeroExt(n, 8)
			return smt.Ite(smt.BVUlt(n, smt.BV(10, 4)), smt.BVAdd(z, smt.BV('0', 8)), smt.BVAdd(z, smt.BV('a'-10, 8)))
		}
		for k := 0; k < src.Len; k++ {
			b := sa.E[src.Off+k].(*smt.Term)
			ne[dst.Off+2*k] = nib(smt.Extract(b, 7, 4))
			ne[dst.Off+2*k+1] = nib(smt.Extract(b, 3, 0))
		}
		in.store(&Ptr{Obj: dst.Arr}, &ArrayV{E: ne})
		return smt.BV(uint64(2*src.Len), 64)
	}
}
