// Package smt: SMT-LIB2 term construction with constant folding, and
// persistent solver processes (z3 -in, cvc5 --incremental).
package smt

import (
	"fmt"
	"sort"
	"strconv"
	"strings"
)

type Kind int

const (
	KBool Kind = iota
	KBV
	KStr
	KInt
	KArr // (Array (_ BitVec 64) (_ BitVec 8))
)

// Term is an immutable SMT term. Constants carry their value for folding.
type Term struct {
	K     Kind
	W     int    // bit width for KBV
	S     string // s-expression
	Const bool
	B     bool   // KBool const
	U     uint64 // KBV const (masked to W)
	Str   string // KStr const (Go bytes; each byte one SMT char)
	// free symbols (variable names) appearing in the term; shared slices, never mutated.
	Syms []string
	// structure of applications (used for flattening / simplification)
	Op   string
	Args []*Term
}

func (t *Term) String() string { return t.S }

func (t *Term) SortString() string {
	switch t.K {
	case KBool:
		return "Bool"
	case KBV:
		return fmt.Sprintf("(_ BitVec %d)", t.W)
	case KStr:
		return "String"
	case KInt:
		return "Int"
	case KArr:
		return "(Array (_ BitVec 64) (_ BitVec 8))"
	}
	return "?"
}

func mergeSyms(ts ...*Term) []string {
	n := 0
	var only []string
	for _, t := range ts {
		if len(t.Syms) > 0 {
			n++
			only = t.Syms
		}
	}
	if n == 0 {
		return nil
	}
	if n == 1 {
		return only
	}
	m := map[string]bool{}
	for _, t := range ts {
		for _, s := range t.Syms {
			m[s] = true
		}
	}
	out := make([]string, 0, len(m))
	for s := range m {
		out = append(out, s)
	}
	sort.Strings(out)
	return out
}

var (
	True  = &Term{K: KBool, S: "true", Const: true, B: true}
	False = &Term{K: KBool, S: "false", Const: true, B: false}
)

func Bool(b bool) *Term {
	if b {
		return True
	}
	return False
}

func mask(w int) uint64 {
	if w >= 64 {
		return ^uint64(0)
	}
	return (uint64(1) << uint(w)) - 1
}

func BV(v uint64, w int) *Term {
	v &= mask(w)
	var s string
	if w%4 == 0 {
		s = fmt.Sprintf("#x%0*x", w/4, v)
	} else {
		s = fmt.Sprintf("(_ bv%d %d)", v, w)
	}
	return &Term{K: KBV, W: w, S: s, Const: true, U: v}
}

// SInt returns the signed value of a BV constant.
func (t *Term) SInt() int64 {
	if t.W >= 64 {
		return int64(t.U)
	}
	if t.U&(uint64(1)<<uint(t.W-1)) != 0 {
		return int64(t.U | ^mask(t.W))
	}
	return int64(t.U)
}

// StrLit builds a string literal; bytes outside printable ASCII (and quote/backslash) are \u{..} escaped.
func StrLit(s string) *Term {
	var b strings.Builder
	b.WriteByte('"')
	for i := 0; i < len(s); i++ {
		c := s[i]
		if c == '"' {
			b.WriteString(`\u{22}`)
		} else if c == '\\' {
			b.WriteString(`\u{5c}`)
		} else if c >= 0x20 && c < 0x7f {
			b.WriteByte(c)
		} else {
			fmt.Fprintf(&b, `\u{%x}`, c)
		}
	}
	b.WriteByte('"')
	return &Term{K: KStr, S: b.String(), Const: true, Str: s}
}

func IntLit(v int64) *Term {
	s := strconv.FormatInt(v, 10)
	if v < 0 {
		s = "(- " + strconv.FormatInt(-v, 10) + ")"
	}
	return &Term{K: KInt, S: s, Const: true, U: uint64(v)}
}

func Var(name string, k Kind, w int) *Term {
	return &Term{K: k, W: w, S: name, Syms: []string{name}}
}

func app(k Kind, w int, op string, args ...*Term) *Term {
	var b strings.Builder
	b.WriteByte('(')
	b.WriteString(op)
	for _, a := range args {
		b.WriteByte(' ')
		b.WriteString(a.S)
	}
	b.WriteByte(')')
	return &Term{K: k, W: w, S: b.String(), Syms: mergeSyms(args...), Op: op, Args: args}
}

// App builds an application of an (uninterpreted or builtin) function without folding.
func App(k Kind, w int, op string, args ...*Term) *Term { return app(k, w, op, args...) }

func Not(a *Term) *Term {
	if a.Const {
		return Bool(!a.B)
	}
	if a.Op == "not" && len(a.Args) == 1 {
		return a.Args[0]
	}
	return app(KBool, 0, "not", a)
}

func And(ts ...*Term) *Term {
	var xs []*Term
	for _, t := range ts {
		if t.Const {
			if !t.B {
				return False
			}
			continue
		}
		xs = append(xs, t)
	}
	if len(xs) == 0 {
		return True
	}
	if len(xs) == 1 {
		return xs[0]
	}
	return app(KBool, 0, "and", xs...)
}

func Or(ts ...*Term) *Term {
	var xs []*Term
	for _, t := range ts {
		if t.Const {
			if t.B {
				return True
			}
			continue
		}
		xs = append(xs, t)
	}
	if len(xs) == 0 {
		return False
	}
	if len(xs) == 1 {
		return xs[0]
	}
	return app(KBool, 0, "or", xs...)
}

func Implies(a, b *Term) *Term { return Or(Not(a), b) }

func Ite(c, a, b *Term) *Term {
	if c.Const {
		if c.B {
			return a
		}
		return b
	}
	if a.S == b.S {
		return a
	}
	if a.K == KBool {
		if a.Const && b.Const {
			if a.B {
				return c
			}
			return Not(c)
		}
	}
	return app(a.K, a.W, "ite", c, a, b)
}

func Eq(a, b *Term) *Term {
	if a.K != b.K || (a.K == KBV && a.W != b.W) {
		panic(fmt.Sprintf("smt.Eq sort mismatch: %s : %s  vs  %s : %s", a.S, a.SortString(), b.S, b.SortString()))
	}
	if a.Const && b.Const {
		switch a.K {
		case KBool:
			return Bool(a.B == b.B)
		case KBV, KInt:
			return Bool(a.U == b.U)
		case KStr:
			return Bool(a.Str == b.Str)
		}
	}
	if a.S == b.S {
		return True
	}
	if a.K == KBV && a.W == 64 {
		// len(s) == 0 for a string s: decided on the string (a Go string is far shorter than 2^64 bytes, so the
		// 64-bit view of str.len cannot wrap to 0)
		for _, pr := range [][2]*Term{{a, b}, {b, a}} {
			x, c := pr[0], pr[1]
			if c.Const && c.U == 0 && strings.HasPrefix(x.Op, "(_ int2bv") && len(x.Args) == 1 && x.Args[0].Op == "str.len" && len(x.Args[0].Args) == 1 {
				return Eq(x.Args[0].Args[0], StrLit(""))
			}
		}
	}
	if a.K == KStr {
		// both sides are sequences of single characters (literals, str.from_code of a byte, ite between such):
		// compare them position by position as bytes — no string theory needed
		if ca, ok := charCodes(a); ok {
			if cb, ok := charCodes(b); ok {
				if len(ca) != len(cb) {
					return False
				}
				cs := make([]*Term, len(ca))
				for i := range ca {
					cs[i] = Eq(ca[i], cb[i])
				}
				return And(cs...)
			}
		}
	}
	if a.K == KBool {
		if a.Const {
			if a.B {
				return b
			}
			return Not(b)
		}
		if b.Const {
			if b.B {
				return a
			}
			return Not(a)
		}
	}
	return app(KBool, 0, "=", a, b)
}

func Neq(a, b *Term) *Term { return Not(Eq(a, b)) }

// charCode: the byte value of a term that always denotes a one-character string over bytes.
func charCode(t *Term) (*Term, bool) {
	switch {
	case t.K != KStr:
		return nil, false
	case t.Const:
		if len(t.Str) == 1 {
			return BV(uint64(t.Str[0]), 8), true
		}
	case t.Op == "str.from_code" && len(t.Args) == 1:
		if x := t.Args[0]; x.Op == "bv2nat" && len(x.Args) == 1 && x.Args[0].K == KBV && x.Args[0].W == 8 {
			return x.Args[0], true
		}
	case t.Op == "ite" && len(t.Args) == 3:
		x, ok1 := charCode(t.Args[1])
		y, ok2 := charCode(t.Args[2])
		if ok1 && ok2 {
			return Ite(t.Args[0], x, y), true
		}
	}
	return nil, false
}

// charCodes: the bytes of a string term made only of one-character pieces (at most 256 of them), if it is one.
func charCodes(t *Term) ([]*Term, bool) {
	parts := []*Term{t}
	if t.Op == "str.++" {
		parts = t.Args
	}
	var out []*Term
	for _, p := range parts {
		if p.Const {
			for i := 0; i < len(p.Str); i++ {
				out = append(out, BV(uint64(p.Str[i]), 8))
			}
			continue
		}
		c, ok := charCode(p)
		if !ok {
			return nil, false
		}
		out = append(out, c)
	}
	if len(out) > 256 {
		return nil, false
	}
	return out, true
}

// ---- bit-vectors ----

func bvbin(op string, a, b *Term, f func(x, y uint64) uint64) *Term {
	if a.W != b.W {
		panic(fmt.Sprintf("bv width mismatch %s: %s(%d) %s(%d)", op, a.S, a.W, b.S, b.W))
	}
	if a.Const && b.Const && f != nil {
		return BV(f(a.U, b.U), a.W)
	}
	return app(KBV, a.W, op, a, b)
}

func BVAdd(a, b *Term) *Term {
	if a.Const && a.U == 0 {
		return b
	}
	if b.Const && b.U == 0 {
		return a
	}
	return bvbin("bvadd", a, b, func(x, y uint64) uint64 { return x + y })
}
func BVSub(a, b *Term) *Term {
	if b.Const && b.U == 0 {
		return a
	}
	return bvbin("bvsub", a, b, func(x, y uint64) uint64 { return x - y })
}
func BVMul(a, b *Term) *Term {
	return bvbin("bvmul", a, b, func(x, y uint64) uint64 { return x * y })
}
func BVAnd(a, b *Term) *Term {
	return bvbin("bvand", a, b, func(x, y uint64) uint64 { return x & y })
}
func BVOr(a, b *Term) *Term {
	return bvbin("bvor", a, b, func(x, y uint64) uint64 { return x | y })
}
func BVXor(a, b *Term) *Term {
	return bvbin("bvxor", a, b, func(x, y uint64) uint64 { return x ^ y })
}
func BVAndNot(a, b *Term) *Term { return BVAnd(a, BVNot(b)) }
func BVNot(a *Term) *Term {
	if a.Const {
		return BV(^a.U, a.W)
	}
	return app(KBV, a.W, "bvnot", a)
}
func BVNeg(a *Term) *Term {
	if a.Const {
		return BV(-a.U, a.W)
	}
	return app(KBV, a.W, "bvneg", a)
}
func BVShl(a, b *Term) *Term {
	return bvbin("bvshl", a, b, func(x, y uint64) uint64 {
		if y >= 64 {
			return 0
		}
		return x << y
	})
}
func BVLshr(a, b *Term) *Term {
	return bvbin("bvlshr", a, b, func(x, y uint64) uint64 {
		if y >= 64 {
			return 0
		}
		return x >> y
	})
}
func BVAshr(a, b *Term) *Term {
	if a.Const && b.Const {
		s := a.SInt()
		sh := b.U
		if sh >= 63 {
			sh = 63
		}
		return BV(uint64(s>>sh), a.W)
	}
	return app(KBV, a.W, "bvashr", a, b)
}
func BVUDiv(a, b *Term) *Term {
	if a.Const && b.Const && b.U != 0 {
		return BV(a.U/b.U, a.W)
	}
	return app(KBV, a.W, "bvudiv", a, b)
}
func BVURem(a, b *Term) *Term {
	if a.Const && b.Const && b.U != 0 {
		return BV(a.U%b.U, a.W)
	}
	if b.Const && b.U != 0 && b.U&(b.U-1) == 0 {
		return BVAnd(a, BV(b.U-1, a.W))
	}
	return app(KBV, a.W, "bvurem", a, b)
}
func BVSDiv(a, b *Term) *Term {
	if a.Const && b.Const && b.U != 0 {
		return BV(uint64(a.SInt()/b.SInt()), a.W)
	}
	return app(KBV, a.W, "bvsdiv", a, b)
}
func BVSRem(a, b *Term) *Term {
	if a.Const && b.Const && b.U != 0 {
		return BV(uint64(a.SInt()%b.SInt()), a.W)
	}
	return app(KBV, a.W, "bvsrem", a, b)
}

func bvcmp(op string, a, b *Term, f func(a, b *Term) bool) *Term {
	if a.W != b.W {
		panic(fmt.Sprintf("bv width mismatch %s: %s(%d) %s(%d)", op, a.S, a.W, b.S, b.W))
	}
	if a.Const && b.Const {
		return Bool(f(a, b))
	}
	// emptiness tests on a string's length (len(s) > 0, len(s) < 1, 0 < len(s), ...) are decided on the string
	if a.W == 64 {
		if s := strOfLen(a); s != nil && b.Const {
			empty := Eq(s, StrLit(""))
			switch {
			case op == "bvslt" && b.SInt() == 1, op == "bvsle" && b.SInt() == 0, op == "bvult" && b.U == 1, op == "bvule" && b.U == 0:
				return empty
			case op == "bvslt" && b.SInt() == 0, op == "bvult" && b.U == 0:
				return False
			}
		}
		if s := strOfLen(b); s != nil && a.Const {
			nonEmpty := Not(Eq(s, StrLit("")))
			switch {
			case op == "bvslt" && a.SInt() == 0, op == "bvsle" && a.SInt() == 1, op == "bvult" && a.U == 0, op == "bvule" && a.U == 1:
				return nonEmpty
			case op == "bvsle" && a.SInt() == 0, op == "bvule" && a.U == 0:
				return True
			}
		}
	}
	return app(KBool, 0, op, a, b)
}

// strOfLen: s when t is the 64-bit view of str.len(s)
func strOfLen(t *Term) *Term {
	if strings.HasPrefix(t.Op, "(_ int2bv") && len(t.Args) == 1 && t.Args[0].Op == "str.len" && len(t.Args[0].Args) == 1 {
		return t.Args[0].Args[0]
	}
	return nil
}
func BVUlt(a, b *Term) *Term {
	return bvcmp("bvult", a, b, func(a, b *Term) bool { return a.U < b.U })
}
func BVUle(a, b *Term) *Term {
	return bvcmp("bvule", a, b, func(a, b *Term) bool { return a.U <= b.U })
}
func BVSlt(a, b *Term) *Term {
	return bvcmp("bvslt", a, b, func(a, b *Term) bool { return a.SInt() < b.SInt() })
}
func BVSle(a, b *Term) *Term {
	return bvcmp("bvsle", a, b, func(a, b *Term) bool { return a.SInt() <= b.SInt() })
}

func ZeroExt(a *Term, w int) *Term {
	if w == a.W {
		return a
	}
	if w < a.W {
		return Extract(a, w-1, 0)
	}
	if a.Const {
		return BV(a.U, w)
	}
	return app(KBV, w, fmt.Sprintf("(_ zero_extend %d)", w-a.W), a)
}
func SignExt(a *Term, w int) *Term {
	if w == a.W {
		return a
	}
	if w < a.W {
		return Extract(a, w-1, 0)
	}
	if a.Const {
		return BV(uint64(a.SInt()), w)
	}
	return app(KBV, w, fmt.Sprintf("(_ sign_extend %d)", w-a.W), a)
}
func Extract(a *Term, hi, lo int) *Term {
	w := hi - lo + 1
	if a.Const {
		return BV(a.U>>uint(lo), w)
	}
	if w == a.W {
		return a
	}
	return app(KBV, w, fmt.Sprintf("(_ extract %d %d)", hi, lo), a)
}
func Concat(a, b *Term) *Term {
	if a.Const && b.Const && a.W+b.W <= 64 {
		return BV(a.U<<uint(b.W)|b.U, a.W+b.W)
	}
	return app(KBV, a.W+b.W, "concat", a, b)
}

// ---- strings ----

func StrConcat(ts ...*Term) *Term {
	var xs []*Term
	var flat []*Term
	for _, t := range ts {
		if t.Op == "str.++" {
			flat = append(flat, t.Args...)
		} else {
			flat = append(flat, t)
		}
	}
	for _, t := range flat {
		if t.Const && t.Str == "" {
			continue
		}
		if len(xs) > 0 && xs[len(xs)-1].Const && t.Const {
			xs[len(xs)-1] = StrLit(xs[len(xs)-1].Str + t.Str)
			continue
		}
		xs = append(xs, t)
	}
	if len(xs) == 0 {
		return StrLit("")
	}
	if len(xs) == 1 {
		return xs[0]
	}
	return app(KStr, 0, "str.++", xs...)
}

// StrLen returns the length as an Int term.
func StrLen(a *Term) *Term {
	if a.Const {
		return IntLit(int64(len(a.Str)))
	}
	return app(KInt, 0, "str.len", a)
}

// StrLenBV returns the length as a 64-bit bit-vector.
func StrLenBV(a *Term) *Term {
	if a.Const {
		return BV(uint64(len(a.Str)), 64)
	}
	return app(KBV, 64, "(_ int2bv 64)", StrLen(a))
}

func Int2BV(a *Term, w int) *Term {
	if a.Const {
		return BV(a.U, w)
	}
	return app(KBV, w, fmt.Sprintf("(_ int2bv %d)", w), a)
}

// BV2Int interprets the bit-vector as unsigned.
func BV2Int(a *Term) *Term {
	if a.Const {
		return IntLit(int64(a.U))
	}
	return app(KInt, 0, "bv2nat", a)
}

func StrSubstr(s, off, n *Term) *Term {
	if s.Const && off.Const && n.Const {
		o, l := int(int64(off.U)), int(int64(n.U))
		if o < 0 || o > len(s.Str) || l <= 0 {
			return StrLit("")
		}
		if o+l > len(s.Str) {
			l = len(s.Str) - o
		}
		return StrLit(s.Str[o : o+l])
	}
	return app(KStr, 0, "str.substr", s, off, n)
}
func StrPrefixOf(p, s *Term) *Term {
	if p.Const && s.Const {
		return Bool(strings.HasPrefix(s.Str, p.Str))
	}
	return app(KBool, 0, "str.prefixof", p, s)
}
func StrSuffixOf(p, s *Term) *Term {
	if p.Const && s.Const {
		return Bool(strings.HasSuffix(s.Str, p.Str))
	}
	return app(KBool, 0, "str.suffixof", p, s)
}
func StrContains(s, sub *Term) *Term {
	if sub.Const && s.Const {
		return Bool(strings.Contains(s.Str, sub.Str))
	}
	return app(KBool, 0, "str.contains", s, sub)
}
func StrIndexOf(s, sub, from *Term) *Term {
	return app(KInt, 0, "str.indexof", s, sub, from)
}

func IntAdd(a, b *Term) *Term {
	if a.Const && b.Const {
		return IntLit(int64(a.U) + int64(b.U))
	}
	return app(KInt, 0, "+", a, b)
}
func IntSub(a, b *Term) *Term {
	if a.Const && b.Const {
		return IntLit(int64(a.U) - int64(b.U))
	}
	return app(KInt, 0, "-", a, b)
}
func IntLe(a, b *Term) *Term {
	if a.Const && b.Const {
		return Bool(int64(a.U) <= int64(b.U))
	}
	return app(KBool, 0, "<=", a, b)
}
func IntLt(a, b *Term) *Term {
	if a.Const && b.Const {
		return Bool(int64(a.U) < int64(b.U))
	}
	return app(KBool, 0, "<", a, b)
}

// ---- arrays (BV64 -> BV8) ----

func Select(arr, idx *Term) *Term { return app(KBV, 8, "select", arr, idx) }
func StoreArr(arr, idx, v *Term) *Term {
	return app(KArr, 0, "store", arr, idx, v)
}
