package smt

import (
	"bufio"
	"fmt"
	"io"
	"os"
	"os/exec"
	"sort"
	"strconv"
	"strings"
	"sync"
	"sync/atomic"
	"time"
)

// ---- declaration registry (global, append-only, deterministic names) ----

var (
	declMu sync.RWMutex
	decls  = map[string]string{}
)

// Declare registers the SMT-LIB declaration command for a symbol name.
func Declare(name, decl string) {
	declMu.Lock()
	if old, ok := decls[name]; ok && old != decl {
		declMu.Unlock()
		panic("smt: conflicting declaration for " + name + ": " + old + " vs " + decl)
	}
	decls[name] = decl
	declMu.Unlock()
}

func DeclOf(name string) (string, bool) {
	declMu.RLock()
	d, ok := decls[name]
	declMu.RUnlock()
	return d, ok
}

var varNames sync.Map

// IsVar reports whether name was declared through NewVar (a constant symbol, not a function).
func IsVar(name string) bool {
	_, ok := varNames.Load(name)
	return ok
}

// NewVar declares and returns a fresh constant symbol.
func NewVar(name string, k Kind, w int) *Term {
	varNames.Store(name, true)
	t := Var(name, k, w)
	Declare(name, fmt.Sprintf("(declare-fun %s () %s)", name, t.SortString()))
	return t
}

// UF applies an uninterpreted function (declared on first use).
func UF(name string, argSorts []string, res *Term, args ...*Term) *Term {
	Declare(name, fmt.Sprintf("(declare-fun %s (%s) %s)", name, strings.Join(argSorts, " "), res.SortString()))
	t := app(res.K, res.W, name, args...)
	t.Syms = mergeSyms(t, &Term{Syms: []string{name}})
	return t
}

// ---- results ----

type Result int

const (
	Unsat Result = iota
	Sat
	Unknown
)

func (r Result) String() string { return [...]string{"unsat", "sat", "unknown"}[r] }

type Model map[string]string // requested term s-expr -> value s-expr

// ---- solver process ----

type Backend struct {
	Name string
	Args []string
}

var (
	Z3    = Backend{"z3", []string{"z3", "-in"}}
	Z3New = Backend{"z3-new", []string{"z3-new", "-in"}}
	CVC5  = Backend{"cvc5", []string{"cvc5", "--incremental", "--strings-exp", "--lang=smt2", "--produce-models", "--tlimit-per=60000"}}
	// CVC5Int: bit-vector multiply/divide kernels solved as integers (keeps mod 2^k semantics).
	CVC5Int = Backend{"cvc5-bvint", []string{"cvc5", "--incremental", "--strings-exp", "--lang=smt2", "--produce-models", "--solve-bv-as-int=sum", "--tlimit-per=60000"}}
)

type proc struct {
	be    Backend
	cmd   *exec.Cmd
	in    io.WriteCloser
	out   *bufio.Reader
	lines chan string
	seq   int
}

func startProc(be Backend) (*proc, error) {
	cmd := exec.Command(be.Args[0], be.Args[1:]...)
	in, err := cmd.StdinPipe()
	if err != nil {
		return nil, err
	}
	out, err := cmd.StdoutPipe()
	if err != nil {
		return nil, err
	}
	cmd.Stderr = cmd.Stdout
	if err := cmd.Start(); err != nil {
		return nil, err
	}
	p := &proc{be: be, cmd: cmd, in: in, out: bufio.NewReaderSize(out, 1<<20), lines: make(chan string, 256)}
	go func() {
		for {
			l, err := p.out.ReadString('\n')
			if l != "" {
				p.lines <- strings.TrimRight(l, "\r\n")
			}
			if err != nil {
				close(p.lines)
				return
			}
		}
	}()
	pre := "(set-option :produce-models true)\n"
	if strings.HasPrefix(be.Name, "z3") {
		pre += "(set-option :model.compact false)\n"
	} else {
		pre += "(set-logic ALL)\n"
	}
	io.WriteString(in, pre)
	return p, nil
}

func (p *proc) kill() {
	if p.cmd != nil && p.cmd.Process != nil {
		p.cmd.Process.Kill()
		go p.cmd.Wait()
	}
}

// send writes text followed by an echo marker and collects lines until the marker or timeout.
func (p *proc) send(text string, timeout time.Duration) (lines []string, ok bool) {
	p.seq++
	marker := fmt.Sprintf("DONE-%d", p.seq)
	_, err := io.WriteString(p.in, text+"\n(echo \""+marker+"\")\n")
	if err != nil {
		return nil, false
	}
	deadline := time.After(timeout)
	for {
		select {
		case l, open := <-p.lines:
			if !open {
				return lines, false
			}
			if strings.Trim(l, "\"") == marker {
				return lines, true
			}
			if l != "" {
				lines = append(lines, l)
			}
		case <-deadline:
			return lines, false
		}
	}
}

// Stats are process-wide counters.
type Stats struct {
	Sat, Unsat, Unknown int64
	Nanos               int64
	PerBackend          sync.Map // name -> *int64
}

var GlobalStats Stats

// Solver multiplexes queries over persistent back-end processes. One Solver per worker goroutine.
type Solver struct {
	procs   map[string]*proc
	Timeout time.Duration // primary per-query cap
	Long    time.Duration // portfolio cap
	Log     io.Writer     // optional query log
}

func NewSolver() *Solver {
	return &Solver{procs: map[string]*proc{}, Timeout: 10 * time.Second, Long: 60 * time.Second}
}

func (s *Solver) Close() {
	for _, p := range s.procs {
		p.kill()
	}
	s.procs = map[string]*proc{}
}

func (s *Solver) get(be Backend) (*proc, error) {
	if p, ok := s.procs[be.Name]; ok {
		return p, nil
	}
	p, err := startProc(be)
	if err != nil {
		return nil, err
	}
	s.procs[be.Name] = p
	return p, nil
}

// collectDecls returns the declaration commands needed by the given terms, in deterministic order.
func collectDecls(ts []*Term) (string, error) {
	seen := map[string]bool{}
	var names []string
	for _, t := range ts {
		for _, n := range t.Syms {
			if !seen[n] {
				seen[n] = true
				names = append(names, n)
			}
		}
	}
	sort.Strings(names)
	var b strings.Builder
	for _, n := range names {
		d, ok := DeclOf(n)
		if !ok {
			return "", fmt.Errorf("undeclared symbol %s", n)
		}
		b.WriteString(d)
		b.WriteByte('\n')
	}
	return b.String(), nil
}

func needsStringsSolver(text string) bool {
	return strings.Contains(text, "str.indexof") || strings.Contains(text, "str.contains") ||
		strings.Contains(text, "str.replace") || strings.Contains(text, "str.prefixof") ||
		strings.Contains(text, "str.suffixof") || strings.Contains(text, "str.substr") ||
		strings.Contains(text, "str.to_code") || strings.Contains(text, "str.at") ||
		strings.Contains(text, "str.to_lower") || strings.Contains(text, "str.to_upper") || strings.Contains(text, "str.in_re")
}

func needsBVInt(text string) bool {
	return strings.Contains(text, "bvmul") || strings.Contains(text, "bvsdiv") || strings.Contains(text, "bvsrem") ||
		strings.Contains(text, "bvudiv") || strings.Contains(text, "bvurem")
}

var queryCounter int64

// Check decides satisfiability of the conjunction of asserts. If want is non-empty and the
// answer is sat, the values of those terms are returned. Any "(error" output makes the
// answer Unknown. The back end is chosen from the query text; on unknown/timeout the query is
// re-issued to the other back ends (portfolio).
func (s *Solver) Check(asserts []*Term, want []*Term) (Result, Model, string) {
	if len(want) > 16 {
		// decide first without the (many) extraction terms; only a sat answer needs their declarations
		r, _, info := s.Check(asserts, nil)
		if r != Sat {
			return r, nil, info
		}
	}
	all := append(append([]*Term{}, asserts...), want...)
	d, err := collectDecls(all)
	if err != nil {
		return Unknown, nil, err.Error()
	}
	var b strings.Builder
	b.WriteString(d)
	for _, a := range asserts {
		if a.Const && a.B {
			continue
		}
		b.WriteString("(assert ")
		b.WriteString(a.S)
		b.WriteString(")\n")
	}
	text := b.String()
	order := []Backend{Z3, Z3New, CVC5}
	if os.Getenv("VX_PRIMARY") == "cvc5" && strings.Contains(text, "String") {
		order = []Backend{CVC5, Z3, Z3New}
	} else if os.Getenv("VX_PRIMARY") == "z3new" {
		order = []Backend{Z3New, Z3, CVC5}
	}
	if needsStringsSolver(text) {
		order = []Backend{CVC5, Z3New, Z3}
	} else if needsBVInt(text) {
		order = []Backend{Z3, CVC5Int, Z3New, CVC5}
	}
	short := needsBVInt(text)
	atomic.AddInt64(&queryCounter, 1)
	t0 := time.Now()
	var last string
	res := Unknown
	var model Model
	for i, be := range order {
		to := s.Timeout
		if i > 0 {
			to = s.Long
		} else if short {
			to = 2 * time.Second
		}
		r, m, info := s.checkOn(be, text, want, to)
		last = be.Name + ":" + info
		if r != Unknown {
			res, model = r, m
			cnt, _ := GlobalStats.PerBackend.LoadOrStore(be.Name, new(int64))
			atomic.AddInt64(cnt.(*int64), 1)
			break
		}
	}
	atomic.AddInt64(&GlobalStats.Nanos, int64(time.Since(t0)))
	switch res {
	case Sat:
		atomic.AddInt64(&GlobalStats.Sat, 1)
	case Unsat:
		atomic.AddInt64(&GlobalStats.Unsat, 1)
	default:
		atomic.AddInt64(&GlobalStats.Unknown, 1)
	}
	if s.Log != nil {
		fmt.Fprintf(s.Log, "; ---- query -> %s (%s) %.3fs\n%s\n", res, last, time.Since(t0).Seconds(), text)
	}
	return res, model, last
}

// CheckRaw decides a self-contained SMT-LIB text (declarations + assertions) on z3, falling back to the others.
func (s *Solver) CheckRaw(text string) (Result, string) {
	t0 := time.Now()
	res, info := Unknown, ""
	for i, be := range []Backend{Z3, Z3New, CVC5} {
		to := s.Timeout
		if i > 0 {
			to = s.Long
		}
		r, _, inf := s.checkOn(be, text, nil, to)
		info = be.Name + ":" + inf
		if r != Unknown {
			res = r
			cnt, _ := GlobalStats.PerBackend.LoadOrStore(be.Name, new(int64))
			atomic.AddInt64(cnt.(*int64), 1)
			break
		}
	}
	atomic.AddInt64(&GlobalStats.Nanos, int64(time.Since(t0)))
	switch res {
	case Sat:
		atomic.AddInt64(&GlobalStats.Sat, 1)
	case Unsat:
		atomic.AddInt64(&GlobalStats.Unsat, 1)
	default:
		atomic.AddInt64(&GlobalStats.Unknown, 1)
	}
	return res, info
}

// CheckOn forces a specific back end (used for second-solver diffing).
func (s *Solver) CheckOn(be Backend, asserts []*Term, timeout time.Duration) (Result, string) {
	d, err := collectDecls(asserts)
	if err != nil {
		return Unknown, err.Error()
	}
	var b strings.Builder
	b.WriteString(d)
	for _, a := range asserts {
		b.WriteString("(assert " + a.S + ")\n")
	}
	r, _, info := s.checkOn(be, b.String(), nil, timeout)
	return r, info
}

func (s *Solver) checkOn(be Backend, text string, want []*Term, timeout time.Duration) (Result, Model, string) {
	p, err := s.get(be)
	if err != nil {
		return Unknown, nil, "start: " + err.Error()
	}
	ms := int(timeout / time.Millisecond)
	var pre string
	if strings.HasPrefix(be.Name, "z3") {
		pre = fmt.Sprintf("(set-option :timeout %d)\n", ms)
	}
	lines, ok := p.send("(push 1)\n"+pre+text+"(check-sat)", timeout+3*time.Second)
	if !ok {
		p.kill()
		delete(s.procs, be.Name)
		return Unknown, nil, "timeout/killed"
	}
	ans := ""
	for _, l := range lines {
		if strings.Contains(l, "(error") || strings.Contains(l, "error:") {
			p.send("(pop 1)", 5*time.Second)
			return Unknown, nil, "solver error: " + l
		}
		if l == "sat" || l == "unsat" || l == "unknown" {
			ans = l
		}
	}
	var res Result
	switch ans {
	case "sat":
		res = Sat
	case "unsat":
		res = Unsat
	default:
		p.send("(pop 1)", 5*time.Second)
		return Unknown, nil, "answer: " + strings.Join(lines, " | ")
	}
	var model Model
	if res == Sat && len(want) > 0 {
		model = Model{}
		var ask []*Term
		for _, w := range want {
			if w.Const {
				model[w.S] = w.S
			} else {
				ask = append(ask, w)
			}
		}
		for len(ask) > 0 {
			n := len(ask)
			if n > 200 {
				n = 200
			}
			chunk := ask[:n]
			ask = ask[n:]
			var sb strings.Builder
			sb.WriteString("(get-value (")
			for _, w := range chunk {
				sb.WriteString(w.S)
				sb.WriteByte(' ')
			}
			sb.WriteString("))")
			ls, ok := p.send(sb.String(), 30*time.Second)
			if !ok {
				p.kill()
				delete(s.procs, be.Name)
				return Unknown, nil, "get-value timeout"
			}
			out := strings.Join(ls, " ")
			if strings.Contains(out, "(error") {
				p.send("(pop 1)", 5*time.Second)
				return Unknown, nil, "get-value error: " + out
			}
			vals, err := parseGetValues(out, len(chunk))
			if err != nil {
				p.send("(pop 1)", 5*time.Second)
				return Unknown, nil, "get-value parse: " + err.Error()
			}
			for i, w := range chunk {
				model[w.S] = vals[i]
			}
		}
	}
	if _, ok := p.send("(pop 1)", 5*time.Second); !ok {
		p.kill()
		delete(s.procs, be.Name)
	}
	return res, model, "ok"
}

// parseGetValues extracts the n value s-exprs from "((t1 v1) (t2 v2) ...)".
func parseGetValues(s string, n int) ([]string, error) {
	toks, err := splitTop(strings.TrimSpace(s))
	if err != nil {
		return nil, err
	}
	if len(toks) != n {
		return nil, fmt.Errorf("expected %d pairs, got %d", n, len(toks))
	}
	out := make([]string, n)
	for i, pair := range toks {
		kv, err := splitTop(pair)
		if err != nil || len(kv) != 2 {
			return nil, fmt.Errorf("bad pair %q", pair)
		}
		out[i] = kv[1]
	}
	return out, nil
}

// splitTop splits the elements of a parenthesised list "(e1 e2 ...)".
func splitTop(s string) ([]string, error) {
	s = strings.TrimSpace(s)
	if len(s) < 2 || s[0] != '(' || s[len(s)-1] != ')' {
		return nil, fmt.Errorf("not a list: %q", s)
	}
	s = s[1 : len(s)-1]
	var out []string
	i := 0
	for i < len(s) {
		for i < len(s) && (s[i] == ' ' || s[i] == '\n' || s[i] == '\t') {
			i++
		}
		if i >= len(s) {
			break
		}
		st := i
		switch s[i] {
		case '"':
			i++
			for i < len(s) {
				if s[i] == '"' {
					if i+1 < len(s) && s[i+1] == '"' {
						i += 2
						continue
					}
					i++
					break
				}
				i++
			}
		case '(':
			depth := 0
			for i < len(s) {
				c := s[i]
				if c == '"' {
					i++
					for i < len(s) {
						if s[i] == '"' {
							if i+1 < len(s) && s[i+1] == '"' {
								i += 2
								continue
							}
							break
						}
						i++
					}
				} else if c == '(' {
					depth++
				} else if c == ')' {
					depth--
					if depth == 0 {
						i++
						break
					}
				}
				i++
			}
		default:
			for i < len(s) && s[i] != ' ' && s[i] != '\n' && s[i] != ')' && s[i] != '(' {
				i++
			}
		}
		out = append(out, s[st:i])
	}
	return out, nil
}

// parseGetValue extracts the value s-expr from "((term value))".
func parseGetValue(s string) (string, error) {
	s = strings.TrimSpace(s)
	// read outer "(" "(" then skip one s-expr (the term), then read the value s-expr.
	i := 0
	skipWS := func() {
		for i < len(s) && (s[i] == ' ' || s[i] == '\n' || s[i] == '\t') {
			i++
		}
	}
	expect := func(c byte) error {
		skipWS()
		if i >= len(s) || s[i] != c {
			return fmt.Errorf("expected %c at %d in %q", c, i, s)
		}
		i++
		return nil
	}
	readSexp := func() (string, error) {
		skipWS()
		st := i
		if i >= len(s) {
			return "", fmt.Errorf("eof")
		}
		if s[i] == '"' {
			i++
			for i < len(s) {
				if s[i] == '"' {
					if i+1 < len(s) && s[i+1] == '"' {
						i += 2
						continue
					}
					i++
					return s[st:i], nil
				}
				i++
			}
			return "", fmt.Errorf("unterminated string")
		}
		if s[i] == '(' {
			depth := 0
			for i < len(s) {
				c := s[i]
				if c == '"' {
					i++
					for i < len(s) {
						if s[i] == '"' {
							if i+1 < len(s) && s[i+1] == '"' {
								i += 2
								continue
							}
							break
						}
						i++
					}
				} else if c == '(' {
					depth++
				} else if c == ')' {
					depth--
					if depth == 0 {
						i++
						return s[st:i], nil
					}
				}
				i++
			}
			return "", fmt.Errorf("unbalanced")
		}
		for i < len(s) && s[i] != ' ' && s[i] != ')' && s[i] != '(' {
			i++
		}
		return s[st:i], nil
	}
	if err := expect('('); err != nil {
		return "", err
	}
	if err := expect('('); err != nil {
		return "", err
	}
	if _, err := readSexp(); err != nil {
		return "", err
	}
	v, err := readSexp()
	return v, err
}

// ---- model value decoding ----

func ValBool(v string) bool { return strings.TrimSpace(v) == "true" }

func ValBV(v string) (uint64, bool) {
	v = strings.TrimSpace(v)
	if strings.HasPrefix(v, "#x") {
		u, err := strconv.ParseUint(v[2:], 16, 64)
		return u, err == nil
	}
	if strings.HasPrefix(v, "#b") {
		u, err := strconv.ParseUint(v[2:], 2, 64)
		return u, err == nil
	}
	if strings.HasPrefix(v, "(_ bv") {
		f := strings.Fields(v[5:])
		u, err := strconv.ParseUint(f[0], 10, 64)
		return u, err == nil
	}
	return 0, false
}

func ValInt(v string) (int64, bool) {
	v = strings.TrimSpace(v)
	if strings.HasPrefix(v, "(-") {
		x := strings.TrimSpace(strings.TrimSuffix(strings.TrimPrefix(v, "(-"), ")"))
		i, err := strconv.ParseInt(x, 10, 64)
		return -i, err == nil
	}
	i, err := strconv.ParseInt(v, 10, 64)
	return i, err == nil
}

// ValStr decodes an SMT-LIB string literal into Go bytes (code points > 255 become '?').
func ValStr(v string) (string, bool) {
	v = strings.TrimSpace(v)
	if len(v) < 2 || v[0] != '"' || v[len(v)-1] != '"' {
		return "", false
	}
	v = v[1 : len(v)-1]
	var b []byte
	for i := 0; i < len(v); i++ {
		c := v[i]
		if c == '"' && i+1 < len(v) && v[i+1] == '"' {
			b = append(b, '"')
			i++
			continue
		}
		if c == '\\' && i+1 < len(v) && v[i+1] == 'u' {
			// \u{X..} or \uXXXX
			if i+2 < len(v) && v[i+2] == '{' {
				j := strings.IndexByte(v[i:], '}')
				if j > 0 {
					cp, err := strconv.ParseUint(v[i+3:i+j], 16, 32)
					if err == nil {
						if cp < 256 {
							b = append(b, byte(cp))
						} else {
							b = append(b, '?')
						}
						i += j
						continue
					}
				}
			} else if i+5 < len(v) {
				cp, err := strconv.ParseUint(v[i+2:i+6], 16, 32)
				if err == nil {
					if cp < 256 {
						b = append(b, byte(cp))
					} else {
						b = append(b, '?')
					}
					i += 5
					continue
				}
			}
		}
		if c == '\\' && i+1 < len(v) && v[i+1] == 'x' && i+3 < len(v) {
			cp, err := strconv.ParseUint(v[i+2:i+4], 16, 8)
			if err == nil {
				b = append(b, byte(cp))
				i += 3
				continue
			}
		}
		b = append(b, c)
	}
	return string(b), true
}
