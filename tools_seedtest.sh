#!/bin/bash
# usage: tools_seedtest.sh <seed-dir> <Cxx> [Cyy...]   applies patch.diff to /repo, runs quick checks, restores.
d=$1; shift
cd /repo || exit 3
P="$d/patch.diff"; [ -f "$d/patch.rebased.diff" ] && P="$d/patch.rebased.diff"
if ! git apply --check "$P" 2>/dev/null; then echo "PATCH-DOES-NOT-APPLY $d"; exit 3; fi
git apply "$P"
for p in "$@"; do
  out=$(cd /verif && VERIF_EVIDENCE_DIR=/verif/evidence/dev timeout 1800 bin/vx check $p --tier ${TIER:-quick} 2>&1); rc=$?
  echo "== $(basename $d) $p rc=$rc"
  echo "$out" | grep -E "VIOLATION|INCONCLUSIVE|violated:|KNOWN|PASS" | cut -c1-260 | head -8
done
cd /repo && git checkout -q -- . && git clean -fdq && git status --short | head -3
