#!/bin/bash
# usage: tools_ingest3.sh <Cxx>   store round-3 sub-agent output /tmp/seed3-out/Cxx/{1,2} as /verif/seeded/Cxx-5, Cxx-6 after
# confirming it in a scratch worktree (applies, builds, suite unchanged, demo fails with / passes without the change).
p=$1
for k in 1 2; do
  src=/tmp/seed3-out/$p/$k
  [ -f $src/patch.diff ] || { echo "$p/$k: no patch"; continue; }
  id=$p-$((k+4))
  dst=/verif/seeded/$id
  mkdir -p $dst; cp $src/patch.diff $src/demo_test.go $src/meta.json $dst/ 2>/dev/null
  v=$(/verif/tools_verify_seed.sh $dst 2>&1 | tail -1)
  echo "$id verify: $v"
  echo "$v" > $dst/verify.txt
  python3 - "$dst" "$id" "$v" <<'PY'
import json,sys
d,i,v=sys.argv[1:4]
m=json.load(open(d+'/meta.json'))
m['id']=i
m['origin']='independent sub-agent (third round: told which ideas were already used, asked to look in less obvious places) given only the property text and a scratch worktree'
m['patch']='patch.diff'
m['confirmed_by_me']='tools_verify_seed.sh in a scratch worktree of /repo HEAD under /tmp: '+v.replace('name='+i+' ','')
json.dump(m,open(d+'/meta.json','w'),indent=1)
PY
done
