//go:build verif

package saml2

// Symbolic side of the harness API: bodyless declarations intercepted by the executor
// (/verif/engine/sx/intrinsics.go). Used for SSA construction only; the native twin with
// JSON-reading bodies is /verif/harness/native/zz_vh_api.go.

import (
	"crypto"
	"crypto/rsa"
	"crypto/tls"
	"crypto/x509"

	"github.com/beevik/etree"
	"time"

	dsig "github.com/russellhaering/goxmldsig"
	dsigtypes "github.com/russellhaering/goxmldsig/types"
)

func vBool(name string) bool
func vFlag(name string) bool
func vByte(name string) byte
func vInt(name string, lo, hi int) int
func vChoice(name string, n int) int
func vI64(name string) int64
func vString(name string) string
func vTimeStr(name string) string
func vInstant(name string) time.Time
func vClock(name string) *dsig.Clock
func vAssume(c bool)
func vAssert(id string, c bool)

// vAssertModel: an assertion about facts only the model observes (call counters of dependency functions, bytes
// requested from the inflater): decided symbolically, not evaluated in the native replay.
func vAssertModel(id string, c bool)
func vReach(label string, c bool)
func vNote(s string)

func vAnd(a, b bool) bool
func vOr(a, b bool) bool
func vNot(a bool) bool
func vImplies(a, b bool) bool
func vIff(a, b bool) bool
func vIteS(c bool, a, b string) string
func vIteI(c bool, a, b int64) int64
func vIteB(c bool, a, b bool) bool

func vParseOK(s string) bool
func vParseNs(s string) int64
func vNs(t time.Time) int64
func vIsUTC(t time.Time) bool
func vClockReads(name string) int
func vClockAt(name string, k int) int64
func vWallReads() int
func vEventCount(prefix string) int
func vPanicked(f func()) bool

func vBlob(name string) []byte
func vDecodeOK(b []byte) bool
func vInflatedLen(b []byte) int64
func vInflateErr(b []byte) bool
func vInflatedDecodeOK(b []byte) bool
func vBytesEq(a, b []byte) bool
func vIsInflateOf(out, in []byte) bool
func vMaterialised() int64
func vReadAllCalls() int
func vReadAllUnlimited() bool
func vMemMark()

func vRandInstall()
func vRandPos() int
func vRandByte(i int) byte
func vHex(b byte) string

func vBytes(name string) []byte
func vB64(b []byte) string
func vStr(b []byte) string
func vCtxSigner(ctx *dsig.SigningContext) crypto.Signer
func vCtxCerts(ctx *dsig.SigningContext) [][]byte

func vRSAKey(name string) *rsa.PrivateKey
func vWrapKey(name string, key *rsa.PrivateKey, transportAlg, digestAlg string, payload []byte) string
func vCipherValue(name string, alg string, key []byte, maxLen int) string
func vPlainByte(name string, i int) byte
func vCipherLen(cipherValue string) int
func vB64OK(s string) bool
func vByteAt(b []byte, i int) byte
func vRSADecryptCalls() int

func vGCMTagOK(name string) bool
func vIsGCMOpened(out []byte) bool

func vB64Str(name string) string

func vIsUnderscoreUUID(id string) bool
func vFormatUTC(layout string, ns int64) string

func vEncodeDoc(name string, root *etree.Element, mode int) string
func vEncryptTree(name string, inner *etree.Element, key []byte, compressed bool) string
func vValidateCtxOK(sp *SAMLServiceProvider) bool
func vValidateCalls() int
func vCertRejections() int
func vScreenedEqualsParsed() bool
func vScreenCalls() int
func vWireInflatedLen(name string) int64
func vSerialised(doc *etree.Document) string
func vhTLSCert() tls.Certificate

func vIDPStore() dsig.X509CertificateStore
func vClockBetween(name string, lo, hi int64)

func vDebugErr(label string, err error)

func vIDString(name string) string

func vEmptyStore() dsig.X509CertificateStore

// vStoreCert(i): the certificate of IdP signing key number i, validity bounds arbitrary (whole seconds, 1970..2100)
func vStoreCert(i int) *x509.Certificate
func vStoreCertNotBefore(i int) int64
func vStoreCertNotAfter(i int) int64
func vValidateCtxSince(k int, sp *SAMLServiceProvider) bool

func vCertBytes(name string) []byte
func vX509OK(der []byte) bool
func vX509NotBefore(der []byte) int64
func vX509NotAfter(der []byte) int64
func vX509ParseCalls() int
func vB64Dec(s string) string

func vURL(name string, withParam bool) string
func vURLBase(u string) string
func vURLTenant(u string) string
func vURLHasTenant(u string) bool
func vQEsc(s string) string
func vQueryString(name string) string
func vDeflated(s string) string
func vBytesOf(s string) []byte
func vSignatureOf(url string) string
func vSigVerifies(signatureB64, content string, key *rsa.PrivateKey, hash crypto.Hash) bool

func vB64AlphabetAxiom()
func vSignedHash(signatureB64 string) crypto.Hash

func vSetSignedContent(s string)

func vTreeSig(e *etree.Element) string
func vDigestCovered(k int) string
func vDigestCalls() int
func vSignDigestKeyIs(k *rsa.PrivateKey) bool

func vSignatureCovers(root *etree.Element, sigIndex int) bool
func vSPCertBytes() []byte

func vFormField(out []byte, element, nameAttr, valueAttr string) (string, bool, bool)
func vFormCount(out []byte, tag string) int
func vPostedDocumentSigned(b64doc string) bool

func vContains(s, sub string) bool

func vTraceStart(sp *SAMLServiceProvider)
func vTraceCut(published *dsig.SigningContext)
func vTraceEnd()
func vRaceFree(threads int, body func()) bool

// vPoolUseAfterPut: how often bytes were read through a slice viewing a buffer already returned to a sync.Pool
func vPoolUseAfterPut() int

// vConcurrently(n, body): body once symbolically; natively from n goroutines, repeatedly (race-detector replay)
func vConcurrently(n int, body func())
func vhC17SPNative() *SAMLServiceProvider
func vGlobalWritesReset()
func vGlobalWrites() int
func vConfigSig(sp *SAMLServiceProvider) string

func vDump(label string, ok bool, v interface{})

func vX509Cert(name string) *x509.Certificate
func vVerifyCertificate(ctx *dsig.ValidationContext, sig *dsigtypes.Signature) (*x509.Certificate, error)
func vCertRaw(c *x509.Certificate) []byte
func vStripWS(s string) string

func vMarshalRoundTrip(v interface{}, out interface{}) bool

func vDigestHashIs(k int, h crypto.Hash) bool
func vDigestCanonIs(k int, c dsig.Canonicalizer) bool

func vScreenRejections() int

func vWatch(sp *SAMLServiceProvider)
func vWatchedWritesExcept(field string) int
