//go:build verif

package saml2

// Lemma L2 (symbolic only; the file lives with the symbolic API because it calls goxmldsig's unexported
// verifyCertificate through an executor intrinsic and therefore has no native twin): the REAL
// verifyCertificate code of the pinned goxmldsig honours a signature only if its certificate is identical
// to a member of the context's store and the context's clock lies inside that certificate's validity
// period; without KeyInfo the sole root is used iff the store holds exactly one.
// This is the dependency half of C02 that the dsig.Validate contract of the orchestration harnesses assumes.

import (
	"crypto/x509"

	dsig "github.com/russellhaering/goxmldsig"
	dsigtypes "github.com/russellhaering/goxmldsig/types"
)

type vlStore struct{ roots []*x509.Certificate }

func (s *vlStore) Certificates() ([]*x509.Certificate, error) { return s.roots, nil }

func VL_L2_verify_certificate() {
	n := vChoice("store.size", 4) // 0..3 trusted certificates
	st := &vlStore{}
	for i := 0; i < n; i++ {
		st.roots = append(st.roots, vX509Cert("root"+string(rune('0'+i))))
	}
	ctx := dsig.NewDefaultValidationContext(st)
	ctx.Clock = vClock("sp")
	sig := &dsigtypes.Signature{}
	hasKeyInfo := vFlag("keyinfo.present")
	presented := vCertBytes("presented")
	data := vString("keyinfo.text")
	if hasKeyInfo {
		sig.KeyInfo = &dsigtypes.KeyInfo{}
		if vFlag("keyinfo.has-certificate") {
			sig.KeyInfo.X509Data.X509Certificates = []dsigtypes.X509Certificate{{Data: data}}
			// the embedded text decodes (after white-space stripping) to the presented certificate bytes
			vAssume(vImplies(vB64OK(vStripWS(data)), vB64Dec(vStripWS(data)) == vStr(presented)))
		}
	}
	cert, err := vVerifyCertificate(ctx, sig)
	vAssert("C02.L2-result-xor-error", (cert != nil) != (err != nil))
	if err != nil {
		vReach("rejected", true)
		return
	}
	vReach("accepted", true)
	vAssert("C02.L2-sp-clock-read-exactly-once-no-wall-clock", vClockReads("sp") == 1 && vWallReads() == 0)
	now := vClockAt("sp", 0)
	// the returned certificate is a member of the store, currently valid
	member := false
	for _, r := range st.roots {
		member = vOr(member, vAnd(vBytesEq(vCertRaw(cert), vCertRaw(r)), vAnd(vX509NotBefore(vCertRaw(r)) <= now, now <= vX509NotAfter(vCertRaw(r)))))
	}
	vAssert("C02.L2-honoured-certificate-is-a-store-member-inside-its-validity-period", member)
	if hasKeyInfo {
		vAssert("C02.L2-honoured-certificate-is-the-presented-one", vBytesEq(vCertRaw(cert), presented))
	} else {
		vAssert("C02.L2-without-keyinfo-only-a-single-root-store-vouches", n == 1)
	}
}
