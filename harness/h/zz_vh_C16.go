//go:build verif

package saml2

import "github.com/beevik/etree"

// vhC16: the POST-binding page: one auto-submitting form to the flow's IdP endpoint, message field =
// base64 of the document, RelayState field iff given; every bound value contextually escaped.
func vhC16(kind int) {
	sp := vhBuilderSP()
	doc := vhSomeDoc()
	relay := vString("relay")
	var out []byte
	var err error
	field, endpoint := "SAMLRequest", sp.IdentityProviderSSOURL
	switch kind {
	case 0:
		out, err = sp.BuildAuthBodyPostFromDocument(relay, doc)
	case 1:
		out, err = sp.BuildLogoutBodyPostFromDocument(relay, doc)
		endpoint = sp.IdentityProviderSLOURL
	case 2:
		out, err = sp.BuildLogoutResponseBodyPostFromDocument(relay, doc)
		field, endpoint = "SAMLResponse", sp.IdentityProviderSLOURL
	}
	vDebugErr("build", err)
	vAssert("C16.build-succeeds", err == nil && out != nil)
	if err != nil {
		return
	}
	vReach("built", true)
	vAssert("C16.single-form", vFormCount(out, "form") == 1 && vFormCount(out, "script") >= 1)
	nInputs := 2
	if relay != "" {
		nInputs = 3
	}
	vAssert("C16.inputs-are-message-[relaystate]-submit", vFormCount(out, "input") == nInputs)
	action, okA, escA := vFormField(out, "form", "", "action")
	vAssert("C16.form-action-is-the-flow-endpoint", vAnd(okA && escA, action == endpoint))
	msg, okM, escM := vFormField(out, "input", field, "value")
	vAssert("C16.message-field-is-base64-of-the-document", vAnd(okM && escM, msg == vB64(vBytesOf(vSerialised(doc)))))
	rs, okR, escR := vFormField(out, "input", "RelayState", "value")
	vAssert("C16.relaystate-field-iff-given", okR == (relay != ""))
	if okR {
		vAssert("C16.relaystate-field-carries-the-value-escaped", vAnd(escR, rs == relay))
		// markup-like text in the relay state must survive the page round trip unchanged
		vAssert("C16.entity-like-relaystate-survives", vImplies(vContains(relay, "&lt;"), vAnd(escR, rs == relay)))
	}
}

func VH_C16_auth_post()            { vhC16(0) }
func VH_C16_logout_post()          { vhC16(1) }
func VH_C16_logout_response_post() { vhC16(2) }

// VH_C16_auth_body_post: BuildAuthBodyPost posts the signed document iff request signing is configured,
// and two consecutive renderings do not interfere (each result keeps its own bytes).
func VH_C16_auth_body_post() {
	sp := vhBuilderSP()
	sp.SignAuthnRequests = vFlag("signAuthnRequests")
	sp.SPKeyStore = &vhKS{key: vRSAKey("sp"), cert: vSPCertBytes()}
	vRandInstall()
	relay1, relay2 := vString("relay1"), vString("relay2")
	out1, err1 := sp.BuildAuthBodyPost(relay1)
	vDebugErr("first", err1)
	if err1 != nil {
		return
	}
	msg1, ok1, _ := vFormField(out1, "input", "SAMLRequest", "value")
	snapshot1 := vStr(out1)
	out2, err2 := sp.BuildAuthBodyPost(relay2)
	vDebugErr("second", err2)
	vAssert("C16,C17.earlier-result-unaffected-by-a-later-rendering", vStr(out1) == snapshot1)
	vAssert("C16,C17.a-later-rendering-succeeds-like-the-first", err2 == nil)
	if err2 != nil {
		return
	}
	vReach("built-twice", true)
	vAssert("C16.message-field-present", ok1)
	vAssert("C16.posted-document-is-signed-iff-configured", vPostedDocumentSigned(msg1) == sp.SignAuthnRequests)
	// each rendering carries its own relay state, whatever was rendered before
	rs1, okR1, escR1 := vFormField(out1, "input", "RelayState", "value")
	vAssert("C16.first-rendering-relaystate", vAnd(okR1 == (relay1 != ""), vImplies(relay1 != "", vAnd(escR1, rs1 == relay1))))
	rs2, okR2, escR2 := vFormField(out2, "input", "RelayState", "value")
	vAssert("C16,C17.later-rendering-carries-its-own-relaystate", vAnd(okR2 == (relay2 != ""), vImplies(relay2 != "", vAnd(escR2, rs2 == relay2))))
	var _ *etree.Document
}

// VH_C16_from_document_twice: the three *FromDocument form builders called repeatedly in one process: a page
// already returned is not changed by a later rendering (no shared output memory), a later rendering is as
// good as the first, and rendering the same document again gives the same page (the document is not consumed).
func VH_C16_from_document_twice() {
	sp := vhBuilderSP()
	kind := vChoice("kind", 3)
	kind2 := vChoice("second.kind", 3) // the rendering in between may be of another flow
	buildK := func(k int, relay string, doc *etree.Document) ([]byte, error) {
		switch k {
		case 0:
			return sp.BuildAuthBodyPostFromDocument(relay, doc)
		case 1:
			return sp.BuildLogoutBodyPostFromDocument(relay, doc)
		}
		return sp.BuildLogoutResponseBodyPostFromDocument(relay, doc)
	}
	build := func(relay string, doc *etree.Document) ([]byte, error) { return buildK(kind, relay, doc) }
	doc1, doc2 := vhSomeDoc(), vhSomeDoc()
	relay1, relay2 := vString("relay1"), vString("relay2")
	out1, err1 := build(relay1, doc1)
	vDebugErr("first", err1)
	if err1 != nil {
		return
	}
	snapshot := vStr(out1)
	out2, err2 := buildK(kind2, relay2, doc2)
	vDebugErr("second", err2)
	vAssert("C16,C17,C18.earlier-page-unaffected-by-a-later-rendering", vStr(out1) == snapshot)
	vAssert("C16,C17.a-later-rendering-succeeds-like-the-first", err2 == nil)
	out3, err3 := build(relay1, doc1)
	vDebugErr("third", err3)
	vReach("rendered-three-times", err2 == nil && err3 == nil)
	vAssert("C16,C17.rendering-the-same-document-again-gives-the-same-page", err3 == nil && vStr(out3) == snapshot)
	_ = out2
}
