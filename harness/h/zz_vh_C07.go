//go:build verif

package saml2

import (
	"crypto"
	"crypto/tls"

	dsig "github.com/russellhaering/goxmldsig"
)

// vhDecryptCertSpec: what getDecryptCert must answer at clock reading number k (DESIGN C07 unit).
func vhDecryptCertRefused(sp *SAMLServiceProvider, cert []byte, listEmpty bool, k int) bool {
	if !sp.ValidateEncryptionCert {
		return false
	}
	if listEmpty || len(cert) == 0 {
		return true
	}
	if vClockReads("sp") <= k {
		// no clock reading in this use: only acceptable when the certificate does not parse
		return vNot(vX509OK(cert))
	}
	now := vClockAt("sp", k)
	return vOr(vNot(vX509OK(cert)), vOr(now < vX509NotBefore(cert), now > vX509NotAfter(cert)))
}

// VH_C07_decrypt_cert: the SP's own encryption certificate is validated (when configured) at every use:
// two consecutive uses on one long-lived SP with the clock moving on in between.
func VH_C07_decrypt_cert() {
	sp := &SAMLServiceProvider{Clock: vClock("sp"), ValidateEncryptionCert: vFlag("validateEncryptionCert")}
	cert := vCertBytes("spcert")
	listEmpty := false
	switch vChoice("keystore.kind", 6) {
	case 5:
		// a tls.Certificate whose Leaf field is a stale parse of another (valid) certificate: Certificate[0] is the
		// certificate the SP publishes and the one that counts
		sp.SPKeyStore = dsig.TLSCertKeyStore(tls.Certificate{Certificate: [][]byte{cert}, PrivateKey: vRSAKey("sp"), Leaf: vStoreCert(9)})
	case 3:
		// the setter API (takes precedence over the field)
		sp.SetSPKeyStore(&KeyStore{Signer: vRSAKey("sp"), Cert: cert})
	case 4:
		sp.SPKeyStore = dsig.TLSCertKeyStore(tls.Certificate{PrivateKey: vRSAKey("other")})
		sp.SetSPKeyStore(&KeyStore{Signer: vRSAKey("sp"), Cert: cert})
	case 0:
		sp.SPKeyStore = dsig.TLSCertKeyStore(tls.Certificate{Certificate: [][]byte{cert}, PrivateKey: vRSAKey("sp")})
	case 1:
		listEmpty = true
		sp.SPKeyStore = dsig.TLSCertKeyStore(tls.Certificate{PrivateKey: vRSAKey("sp")})
	case 2:
		sp.SPKeyStore = &vhKS{key: vRSAKey("sp"), cert: cert}
	}
	mustConsultClock := vAnd(sp.ValidateEncryptionCert && !listEmpty && len(cert) > 0, vX509OK(cert))
	dc1, err1 := sp.getDecryptCert()
	vDebugErr("first", err1)
	vAssert("C09.result-xor-error", (dc1 != nil) != (err1 != nil))
	r1 := vClockReads("sp")
	vAssert("C07.sp-clock-consulted-for-a-parsable-encryption-cert", vImplies(mustConsultClock, r1 >= 1))
	vAssert("C07.encryption-cert-refused-iff-empty-unparsable-or-outside-validity", vIff(err1 != nil, vhDecryptCertRefused(sp, cert, listEmpty, 0)))
	if !sp.ValidateEncryptionCert {
		vAssert("C07.no-certificate-inspection-when-not-configured", vAnd(r1 == 0, vX509ParseCalls() == 0))
	}
	vReach("first-ok", err1 == nil)
	vReach("first-refused", err1 != nil)
	// later use on the same SP
	dc2, err2 := sp.getDecryptCert()
	vDebugErr("second", err2)
	vAssert("C09.result-xor-error", (dc2 != nil) != (err2 != nil))
	vAssert("C07,C17.sp-clock-consulted-at-every-use", vImplies(mustConsultClock, vClockReads("sp") >= r1+1))
	vAssert("C07,C17.encryption-cert-validity-is-checked-at-every-use", vIff(err2 != nil, vhDecryptCertRefused(sp, cert, listEmpty, r1)))
	vReach("second-refused-after-first-ok", err1 == nil && err2 != nil)
}

// VH_C07_recipient: decryption is refused, before any private-key operation, when the EncryptedKey names a
// recipient certificate different from the SP's (inline or detached EncryptedKey).
func VH_C07_recipient() {
	cert := &tls.Certificate{Certificate: [][]byte{vBytes("spcert")}, PrivateKey: vRSAKey("sp")}
	if vFlag("spcert.has-chain") {
		// the key store holds a chain: the SP's own (leaf) certificate first, then its issuer's
		cert.Certificate = append(cert.Certificate, vBytes("cacert"))
	}
	// data encryption itself is well-formed AES-128-GCM, so that only the key transport decides
	ea := vhEncryptedAssertionAlg(cert, true, 64, "http://www.w3.org/2009/xmlenc11#aes128-gcm")
	vAssume(vAnd(vB64OK(ea.CipherValue), vAnd(vCipherLen(ea.CipherValue) >= 28, vGCMTagOK("cv"))))
	ek := &ea.EncryptedKey
	if ek.CipherValue == "" {
		ek = &ea.DetEncryptedKey
	}
	named := ek.X509Data
	_, err := ea.DecryptBytes(cert)
	vDebugErr("decrypt", err)
	mismatch := vAnd(named != "", vAnd(vB64OK(named), vB64Dec(named) != vStr(cert.Certificate[0])))
	vReach("mismatch", mismatch)
	vAssert("C07.mismatching-recipient-certificate-is-refused", vImplies(mismatch, err != nil))
	vAssert("C07.no-private-key-operation-for-a-mismatching-recipient", vImplies(mismatch, vRSADecryptCalls() == 0))
	vAssert("C07.undecodable-recipient-certificate-is-refused", vImplies(vAnd(named != "", vNot(vB64OK(named))), err != nil))
}

// VH_C11_rekey: a long-lived SP whose encryption key is replaced between two uses (the setter is called, or the
// field is reassigned): from then on decryption uses the new key — the one whose certificate the SP now publishes.
func VH_C11_rekey() {
	sp := &SAMLServiceProvider{Clock: vClock("sp")}
	keyA, keyB := vRSAKey("A"), vRSAKey("B")
	certA, certB := vBytes("certA"), vBytes("certB")
	bySetter := vFlag("initial-by-setter")
	if bySetter {
		sp.SetSPKeyStore(&KeyStore{Signer: keyA, Cert: certA})
	} else {
		sp.SPKeyStore = &vhKS{key: keyA, cert: certA}
	}
	vAssume(len(certA) > 0 && len(certB) > 0)
	sp.Metadata() // published once under the first key
	dc1, err1 := sp.getDecryptCert()
	vDebugErr("first", err1)
	if err1 != nil || dc1 == nil {
		return
	}
	vAssert("C11,C07.first-use-takes-the-configured-key", dc1.PrivateKey == crypto.PrivateKey(keyA))
	// (a key installed with the setter keeps precedence over the field by design: it is replaced with the setter)
	if bySetter || vFlag("rekey-by-setter") {
		sp.SetSPKeyStore(&KeyStore{Signer: keyB, Cert: certB})
	} else {
		sp.SPKeyStore = &vhKS{key: keyB, cert: certB}
	}
	dc2, err2 := sp.getDecryptCert()
	vDebugErr("second", err2)
	vReach("second-use", err2 == nil)
	ok := err2 == nil && dc2 != nil && dc2.PrivateKey == crypto.PrivateKey(keyB) && len(dc2.Certificate) == 1
	vAssert("C11,C07,C17.a-replaced-encryption-key-is-used-from-then-on", ok)
	if ok {
		vAssert("C11,C07,C17.with-its-own-certificate", vBytesEq(dc2.Certificate[0], certB))
	}
	// and the metadata published from now on names the new key for encryption and (no dedicated signing key) signing
	md, merr := sp.Metadata()
	if merr == nil && md != nil {
		if kd, _ := vhFindKeyDescriptor(md, "encryption"); kd != nil && len(kd.KeyInfo.X509Data.X509Certificates) == 1 {
			vAssert("C11,C19,C17.metadata-after-rekeying-publishes-the-new-encryption-certificate", kd.KeyInfo.X509Data.X509Certificates[0].Data == vB64(certB))
		}
		if kd, _ := vhFindKeyDescriptor(md, "signing"); kd != nil && len(kd.KeyInfo.X509Data.X509Certificates) == 1 {
			vAssert("C13,C19,C17.metadata-after-rekeying-publishes-the-new-signing-certificate", kd.KeyInfo.X509Data.X509Certificates[0].Data == vB64(certB))
		}
	}
}

