//go:build verif

package saml2

import (
	"github.com/beevik/etree"
	"github.com/russellhaering/gosaml2/types"
	dsig "github.com/russellhaering/goxmldsig"
)

func vhC17SP() *SAMLServiceProvider {
	sp := vhBuilderSP()
	sp.SPKeyStore = &vhKS{key: vRSAKey("sp"), cert: vSPCertBytes()}
	return sp
}

// vhUseContext: what callers do with the context after SigningContext() returned (reads of its fields).
func vhUseContext(c *dsig.SigningContext) {
	_ = c.GetSignatureMethodIdentifier()
	_ = c.Canonicalizer
}

// VH_C17_signing_context_race: T goroutines calling SigningContext() (and then using the context) on one
// fresh SP do not race: happens-before encoding over the event sequences of the real code's slow and fast paths.
func vhC17Race(T int) {
	sp := vhC17SP()
	sp.SignAuthnRequestsAlgorithm = "http://www.w3.org/2001/04/xmldsig-more#rsa-sha512"
	vTraceStart(sp)
	c1 := sp.SigningContext()
	vhUseContext(c1)
	vTraceCut(c1)
	c2 := sp.SigningContext()
	vhUseContext(c2)
	vTraceEnd()
	vReach("traced", true)
	_ = c2
	vAssert("C17,C13,C14.lazy-signing-context-is-data-race-free", vRaceFree(T, func() {
		s := vhC17SPNative()
		vhUseContext(s.SigningContext())
	}))
}

func VH_C17_signing_context_race()      { vhC17Race(2) }
func VH_C17_signing_context_race_deep() { vhC17Race(3) }

// VH_C17_isolation: results are freshly allocated per call and calls do not write shared state:
// mutating a returned descriptor does not show in a later one; validation leaves the exported
// configuration and package-level state untouched.
func VH_C17_isolation() {
	sp := vhC17SP()
	sp.ServiceProviderIssuer = vString("spIssuer2")
	md1, err1 := sp.Metadata()
	if err1 != nil || md1 == nil || md1.SPSSODescriptor == nil {
		return
	}
	vGlobalWritesReset()
	// the caller scribbles over everything it was given
	for i := range md1.SPSSODescriptor.KeyDescriptors {
		kd := &md1.SPSSODescriptor.KeyDescriptors[i]
		kd.Use = "scribbled"
		for j := range kd.EncryptionMethods {
			kd.EncryptionMethods[j].Algorithm = types.MethodTripleDESCBC
			kd.EncryptionMethods[j].DigestMethod = &types.DigestMethod{Algorithm: "scribbled"}
		}
		for j := range kd.KeyInfo.X509Data.X509Certificates {
			kd.KeyInfo.X509Data.X509Certificates[j].Data = "scribbled"
		}
	}
	for i := range md1.SPSSODescriptor.AssertionConsumerServices {
		md1.SPSSODescriptor.AssertionConsumerServices[i].Location = "scribbled"
	}
	slo := vFlag("second-is-slo-variant")
	var md2 *types.EntityDescriptor
	var err2 error
	if slo {
		md2, err2 = sp.MetadataWithSLO(0)
	} else {
		md2, err2 = sp.Metadata()
	}
	vAssert("C17.later-call-succeeds", err2 == nil && md2 != nil && md2.SPSSODescriptor != nil)
	if err2 != nil || md2 == nil || md2.SPSSODescriptor == nil {
		return
	}
	vReach("second-metadata", true)
	clean := true
	for _, kd := range md2.SPSSODescriptor.KeyDescriptors {
		clean = clean && kd.Use != "scribbled"
		for _, m := range kd.EncryptionMethods {
			clean = clean && m.Algorithm != types.MethodTripleDESCBC && m.DigestMethod == nil
		}
		clean = clean && len(kd.KeyInfo.X509Data.X509Certificates) == 1
	}
	clean = clean && len(md2.SPSSODescriptor.AssertionConsumerServices) == 1
	vAssert("C17,C19.mutating-a-returned-result-does-not-affect-later-results", clean)
	vAssert("C17.no-package-level-state-written", vGlobalWrites() == 0)
}

// VH_C17_validation_pure: validating (twice) leaves the SP's exported configuration untouched, writes no
// package-level variable, and the second identical call gives the identical outcome.
func VH_C17_validation_pure() {
	sp := vhOrchSP(false)
	s := vhSSOScenario(1, 2)
	enc := vEncodeDoc("wire", s.root, 0)
	before := vConfigSig(sp)
	vGlobalWritesReset()
	r1, e1 := sp.ValidateEncodedResponse(enc)
	r2, e2 := sp.ValidateEncodedResponse(enc)
	vAssert("C17.validation-does-not-modify-the-configuration", vConfigSig(sp) == before)
	vAssert("C17.no-package-level-state-written", vGlobalWrites() == 0)
	// (outcomes may differ between the two calls only through the SP clock moving on and the
	// dependency models' nondeterminism; they are not compared)
	if e1 == nil && e2 == nil {
		vReach("accepted-twice", true)
		vAssert("C17.results-are-distinct-objects", r1 != r2)
		vAssert("C17.identical-calls-identical-data", len(r1.Assertions) == len(r2.Assertions) && r1.ID == r2.ID)
	}
}

// VH_C17_no_shared_writes: none of the operations a configured SP offers writes to the SP object (other than
// the lazily cached signing context, whose protocol VH_C17_signing_context_race covers) or to package-level
// state. Together with the race freedom of SigningContext() this gives race freedom of arbitrary mixes of
// operations on one SP: they share memory only through reads.
func VH_C17_no_shared_writes() {
	sp := vhOrchSP(vFlag("skipSignatureValidation"))
	sp.ServiceProviderSLOURL = vString("slo")
	sp.ServiceProviderIssuer = vString("spIssuer")
	sp.IdentityProviderSSOURL = vURL("idpSSO", false)
	sp.IdentityProviderSLOURL = vURL("idpSLO", false)
	sp.SignAuthnRequests = vFlag("signAuthnRequests")
	vRandInstall()
	before := vConfigSig(sp)
	vWatch(sp)
	vGlobalWritesReset()
	switch vChoice("operation", 12) {
	case 0:
		s := vhSSOScenario(1, 3)
		sp.ValidateEncodedResponse(vEncodeDoc("wire", s.root, 0))
	case 1:
		s := vhSSOScenario(1, 3)
		sp.RetrieveAssertionInfo(vEncodeDoc("wire", s.root, 0))
	case 2:
		l := vhLogoutRoot("samlp:LogoutRequest", vChoice("root.sig", 3), "root")
		sp.ValidateEncodedLogoutRequestPOST(vEncodeDoc("wire", l.root, 0))
	case 3:
		l := vhLogoutRoot("samlp:LogoutResponse", vChoice("root.sig", 3), "root")
		sp.ValidateEncodedLogoutResponsePOST(vEncodeDoc("wire", l.root, 0))
	case 4:
		sp.Metadata()
	case 5:
		sp.MetadataWithSLO(vI64("hours"))
	case 6:
		sp.BuildAuthRequestDocument()
	case 7:
		if doc, err := sp.BuildAuthRequestDocumentNoSig(); err == nil {
			sp.BuildAuthURLRedirect(vQueryString("relay"), doc)
		}
	case 8:
		sp.BuildAuthBodyPost(vString("relay"))
	case 9:
		if doc, err := sp.BuildLogoutRequestDocument(vString("nameID"), vString("sessionIndex")); err == nil {
			sp.BuildLogoutURLRedirect(vQueryString("relay"), doc)
			sp.BuildLogoutBodyPostFromDocument(vString("relay2"), doc)
		}
	case 10:
		if doc, err := sp.BuildLogoutResponseDocument(vString("status"), vString("reqID")); err == nil {
			sp.BuildLogoutResponseBodyPostFromDocument(vString("relay"), doc)
		}
	case 11:
		sp.GetSigningCertBytes()
		sp.GetEncryptionCertBytes()
	}
	vReach("done", true)
	vAssert("C17.no-operation-writes-the-sp-object-except-the-cached-signing-context", vWatchedWritesExcept("signingContext") == 0)
	vAssert("C17.no-operation-writes-package-level-state", vGlobalWrites() == 0)
	vAssert("C17,C15.exported-configuration-unchanged", vConfigSig(sp) == before)
}

// VH_C18_two_documents: a built message keeps its own identity when another message is built before the first
// one is serialised (documents must not share attribute storage): each document still carries the ID
// (and everything else) it was created with.
func VH_C18_two_documents() {
	sp := vhBuilderSP()
	vRandInstall()
	build := func(kind int) (*etree.Document, error) {
		switch kind {
		case 0:
			return sp.BuildAuthRequestDocumentNoSig()
		case 1:
			return sp.BuildLogoutRequestDocumentNoSig(vString("nameID"), vString("sessionIndex"))
		}
		return sp.BuildLogoutResponseDocumentNoSig(vString("status"), vString("reqID"))
	}
	k1 := vChoice("first.kind", 3)
	d1, err1 := build(k1)
	if err1 != nil || d1 == nil || d1.Root() == nil {
		return
	}
	id1, n1 := vhAttr(d1.Root(), "ID")
	sig1 := vTreeSig(d1.Root())
	d2, err2 := build(vChoice("second.kind", 3))
	if err2 != nil || d2 == nil || d2.Root() == nil {
		return
	}
	vReach("two-built", true)
	id2, n2 := vhAttr(d2.Root(), "ID")
	again, _ := vhAttr(d1.Root(), "ID")
	vAssert("C18,C17,C15.a-later-message-does-not-change-an-earlier-one", vAnd(n1 == 1 && n2 == 1, vAnd(again == id1, vTreeSig(d1.Root()) == sig1)))
	_ = id2
}
