//go:build verif

package saml2

import (
	"github.com/russellhaering/gosaml2/types"
)

// ---- builders shared by the unit harnesses ----

func vhSP(clock string) *SAMLServiceProvider {
	return &SAMLServiceProvider{
		AssertionConsumerServiceURL: vString("acs"),
		ServiceProviderSLOURL:       vString("slo"),
		IdentityProviderIssuer:      vString("idpIssuer"),
		AudienceURI:                 vString("aud"),
		Clock:                       vClock(clock),
	}
}

func vhIssuer(p string) *types.Issuer {
	if vFlag(p + ".present") {
		return &types.Issuer{Value: vString(p + ".value")}
	}
	return nil
}

// vhAssertion builds an assertion. full=false: one optional part absent at a time (5 shapes);
// full=true: every combination of absent parts (cross product).
func vhAssertion(p string, full bool) types.Assertion {
	a := types.Assertion{ID: vString(p + ".ID"), Version: vString(p + ".Version")}
	depth := 3 // 0: no Subject, 1: no SubjectConfirmation, 2: no SubjectConfirmationData, 3: all present
	issuer := true
	if full {
		issuer = vFlag(p + ".Issuer.present")
		depth = vChoice(p+".depth", 4)
	} else {
		switch vChoice(p+".shape", 5) {
		case 0:
			issuer = false
		case 1, 2, 3:
			depth = vChoice(p+".depth", 3)
		}
	}
	if issuer {
		a.Issuer = &types.Issuer{Value: vString(p + ".Issuer.value")}
	}
	if depth >= 1 {
		a.Subject = &types.Subject{NameID: &types.NameID{Value: vString(p + ".NameID")}}
	}
	if depth >= 2 {
		a.Subject.SubjectConfirmation = &types.SubjectConfirmation{Method: vString(p + ".SC.Method")}
	}
	if depth >= 3 {
		a.Subject.SubjectConfirmation.SubjectConfirmationData = &types.SubjectConfirmationData{
			Recipient:    vString(p + ".SCD.Recipient"),
			NotOnOrAfter: vTimeStr(p + ".SCD.NotOnOrAfter"),
			InResponseTo: vString(p + ".SCD.InResponseTo"),
		}
	}
	return a
}

func vhResponse(n int, full bool) *types.Response {
	r := &types.Response{
		ID:           vString("resp.ID"),
		InResponseTo: vString("resp.InResponseTo"),
		Destination:  vString("resp.Destination"),
		Version:      vString("resp.Version"),
	}
	issuer, status := true, 2 // status: 0 no Status, 1 no StatusCode, 2 present
	if full {
		issuer = vFlag("resp.Issuer.present")
		status = vChoice("resp.status", 3)
	} else {
		switch vChoice("resp.shape", 4) {
		case 0:
			issuer = false
		case 1:
			status = 0
		case 2:
			status = 1
		}
	}
	if issuer {
		r.Issuer = &types.Issuer{Value: vString("resp.Issuer.value")}
	}
	if status >= 1 {
		r.Status = &types.Status{}
	}
	if status >= 2 {
		r.Status.StatusCode = &types.StatusCode{Value: vString("resp.StatusCode")}
	}
	for i := 0; i < n; i++ {
		r.Assertions = append(r.Assertions, vhAssertion("a"+string(rune('0'+i)), full))
	}
	if (n == 0 || full) && vFlag("resp.EncryptedAssertions.present") {
		// undecrypted EncryptedAssertion elements (as on the SkipSignatureValidation path) are not assertions
		r.EncryptedAssertions = []types.EncryptedAssertion{{CipherValue: vString("resp.enc.cv")}}
	}
	return r
}

// vhAssertionOK is the specification of "assertion i passes the SSO profile checks" (DESIGN B.1),
// with now = the k-th reading of the SP clock.
func vhAssertionStatic(sp *SAMLServiceProvider, a *types.Assertion) bool {
	ok := a.Issuer != nil
	if a.Issuer != nil {
		ok = vAnd(ok, vOr(sp.IdentityProviderIssuer == "", a.Issuer.Value == sp.IdentityProviderIssuer))
	}
	if a.Subject == nil || a.Subject.SubjectConfirmation == nil || a.Subject.SubjectConfirmation.SubjectConfirmationData == nil {
		return false
	}
	sc := a.Subject.SubjectConfirmation
	scd := sc.SubjectConfirmationData
	ok = vAnd(ok, sc.Method == "urn:oasis:names:tc:SAML:2.0:cm:bearer")
	ok = vAnd(ok, scd.Recipient == sp.AssertionConsumerServiceURL)
	ok = vAnd(ok, vAnd(scd.NotOnOrAfter != "", vParseOK(scd.NotOnOrAfter)))
	return ok
}

func vhResponseStatic(sp *SAMLServiceProvider, r *types.Response) bool {
	ok := r.Version == "2.0"
	ok = vAnd(ok, vOr(r.Destination == "", r.Destination == sp.AssertionConsumerServiceURL))
	ok = vAnd(ok, r.Issuer != nil)
	if r.Issuer != nil {
		ok = vAnd(ok, vOr(sp.IdentityProviderIssuer == "", r.Issuer.Value == sp.IdentityProviderIssuer))
	}
	if r.Status == nil || r.Status.StatusCode == nil {
		return false
	}
	ok = vAnd(ok, r.Status.StatusCode.Value == "urn:oasis:names:tc:SAML:2.0:status:Success")
	ok = vAnd(ok, len(r.Assertions) >= 1)
	return ok
}

// VH_C03_validate: Validate accepts exactly the responses that satisfy every profile check for every
// assertion; rejections carry a typed error naming a conjunct that is in fact violated.
func VH_C03_validate() { vhC03Validate(3, false) }

// thorough: up to 3 assertions, full cross product of absent parts
func VH_C03_validate_full() { vhC03Validate(4, true) }

func vhC03Validate(maxN int, full bool) {
	sp := vhSP("sp")
	n := vChoice("nAssertions", maxN)
	r := vhResponse(n, full)

	err := sp.Validate(r)

	// specification (independent of how often / when the implementation reads the SP clock: readings within one
	// call are non-decreasing, so "unexpired at every reading used" is implied by "unexpired at the first",
	// and an expiry verdict must be true at the last reading at the latest)
	static := vhResponseStatic(sp, r)
	staticAll := static
	reads := vClockReads("sp")
	unexpiredAtFirst, expiredAtLast := true, false
	for i := 0; i < n; i++ {
		a := &r.Assertions[i]
		staticAll = vAnd(staticAll, vhAssertionStatic(sp, a))
		if a.Subject != nil && a.Subject.SubjectConfirmation != nil && a.Subject.SubjectConfirmation.SubjectConfirmationData != nil && reads >= 1 {
			scd := a.Subject.SubjectConfirmation.SubjectConfirmationData
			unexpiredAtFirst = vAnd(unexpiredAtFirst, vClockAt("sp", 0) < vParseNs(scd.NotOnOrAfter))
			expiredAtLast = vOr(expiredAtLast, vAnd(vParseOK(scd.NotOnOrAfter), vClockAt("sp", reads-1) >= vParseNs(scd.NotOnOrAfter)))
		}
	}
	vReach("accepted", err == nil)
	vReach("rejected", err != nil)
	if err == nil {
		vAssert("C03.accept-implies-all-checks", staticAll)
		vAssert("C03.accept-implies-sp-clock-consulted", reads >= 1)
		vAssert("C03,C05.accept-implies-no-assertion-expired", unexpiredAtFirst)
		vAssert("C03.no-wall-clock", vWallReads() == 0)
	} else {
		vAssert("C03.reject-implies-some-check-failed", vOr(vNot(staticAll), expiredAtLast))
		vhCheckTypedError(sp, r, n, err)
	}
}

// vhCheckTypedError: the error's dynamic type is one of the typed errors and names a violated conjunct.
func vhCheckTypedError(sp *SAMLServiceProvider, r *types.Response, n int, err error) {
	switch e := err.(type) {
	case ErrMissingElement:
		vReach("err.missing", true)
		named := false
		switch e.Tag {
		case "Assertion":
			named = vAnd(len(r.Assertions) == 0, e.Attribute == "")
		case "Issuer":
			named = r.Issuer == nil
			for i := 0; i < n; i++ {
				named = vOr(named, r.Assertions[i].Issuer == nil)
			}
			named = vAnd(named, e.Attribute == "")
		case "Status":
			named = vAnd(r.Status == nil, e.Attribute == "")
		case "StatusCode":
			named = vAnd(r.Status != nil && r.Status.StatusCode == nil, e.Attribute == "")
		case "Subject":
			for i := 0; i < n; i++ {
				named = vOr(named, r.Assertions[i].Subject == nil)
			}
			named = vAnd(named, e.Attribute == "")
		case "SubjectConfirmation":
			for i := 0; i < n; i++ {
				s := r.Assertions[i].Subject
				named = vOr(named, s != nil && s.SubjectConfirmation == nil)
			}
			named = vAnd(named, e.Attribute == "")
		case "SubjectConfirmationData":
			for i := 0; i < n; i++ {
				s := r.Assertions[i].Subject
				if s != nil && s.SubjectConfirmation != nil {
					scd := s.SubjectConfirmation.SubjectConfirmationData
					if scd == nil {
						named = vOr(named, e.Attribute == "")
					} else {
						named = vOr(named, vAnd(e.Attribute == "NotOnOrAfter", scd.NotOnOrAfter == ""))
					}
				}
			}
		}
		vAssert("C03.typed-error.missing-names-violated-conjunct", named)
	case ErrInvalidValue:
		vReach("err.invalid", true)
		named := false
		switch e.Key {
		case "Destination":
			named = vAnd(r.Destination != "", r.Destination != sp.AssertionConsumerServiceURL)
			named = vAnd(named, vAnd(e.Actual == r.Destination, e.Expected == sp.AssertionConsumerServiceURL))
		case "SAML version":
			named = vAnd(r.Version != "2.0", e.Reason == "Unsupported")
		case "Issuer":
			if r.Issuer != nil {
				named = vAnd(sp.IdentityProviderIssuer != "", r.Issuer.Value != sp.IdentityProviderIssuer)
			}
			for i := 0; i < n; i++ {
				if is := r.Assertions[i].Issuer; is != nil {
					named = vOr(named, vAnd(sp.IdentityProviderIssuer != "", is.Value != sp.IdentityProviderIssuer))
				}
			}
			named = vAnd(named, e.Expected == sp.IdentityProviderIssuer)
		case "StatusCode":
			if r.Status != nil && r.Status.StatusCode != nil {
				named = r.Status.StatusCode.Value != "urn:oasis:names:tc:SAML:2.0:status:Success"
			}
		case "SubjectConfirmation":
			for i := 0; i < n; i++ {
				s := r.Assertions[i].Subject
				if s != nil && s.SubjectConfirmation != nil {
					named = vOr(named, s.SubjectConfirmation.Method != "urn:oasis:names:tc:SAML:2.0:cm:bearer")
				}
			}
			named = vAnd(named, e.Reason == "Unsupported")
		case "Recipient":
			for i := 0; i < n; i++ {
				s := r.Assertions[i].Subject
				if s != nil && s.SubjectConfirmation != nil && s.SubjectConfirmation.SubjectConfirmationData != nil {
					named = vOr(named, s.SubjectConfirmation.SubjectConfirmationData.Recipient != sp.AssertionConsumerServiceURL)
				}
			}
			named = vAnd(named, e.Expected == sp.AssertionConsumerServiceURL)
		case "NotOnOrAfter":
			reads := vClockReads("sp")
			for i := 0; i < n; i++ {
				s := r.Assertions[i].Subject
				if s != nil && s.SubjectConfirmation != nil && s.SubjectConfirmation.SubjectConfirmationData != nil && reads >= 1 {
					scd := s.SubjectConfirmation.SubjectConfirmationData
					named = vOr(named, vAnd(vParseOK(scd.NotOnOrAfter), vClockAt("sp", reads-1) >= vParseNs(scd.NotOnOrAfter)))
				}
			}
			named = vAnd(named, e.Reason == "Expired")
		}
		vAssert("C03.typed-error.invalid-names-violated-conjunct", named)
	case ErrParsing:
		vReach("err.parsing", true)
		named := false
		for i := 0; i < n; i++ {
			s := r.Assertions[i].Subject
			if s != nil && s.SubjectConfirmation != nil && s.SubjectConfirmation.SubjectConfirmationData != nil {
				scd := s.SubjectConfirmation.SubjectConfirmationData
				named = vOr(named, vAnd(scd.NotOnOrAfter != "", vAnd(vNot(vParseOK(scd.NotOnOrAfter)), e.Value == scd.NotOnOrAfter)))
			}
		}
		vAssert("C03.typed-error.parsing-names-violated-conjunct", vAnd(named, e.Tag == "NotOnOrAfter"))
	default:
		vAssert("C03.typed-error.type", false)
	}
}
