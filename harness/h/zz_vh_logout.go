//go:build verif

package saml2

import (
	"github.com/beevik/etree"
)

// vhLogout: a logout message scenario.
type vhLogout struct {
	twinDestination, twinVersion           string // values of x:Destination / x:Version (attributes of the same local name in a foreign namespace), "" = absent
	hasTwin                                bool
	root                                   *etree.Element
	sig                                    int
	kind                                   string
	ID, InResponseTo, Destination, Version string
	Issuer, NameID, StatusCode             string
}

// vhNonASCIIIssuer: the logout scenarios' Issuer ends in a non-ASCII character (set by the harness that wants it)
var vhNonASCIIIssuer bool

func vhLogoutRoot(tag string, sig int, p string) *vhLogout {
	l := &vhLogout{sig: sig, kind: tag, ID: vIDString(p + ".ID"), InResponseTo: vString(p + ".InResponseTo"), Destination: vString(p + ".Destination"),
		Version: vString(p + ".Version"), Issuer: vString(p + ".Issuer"), NameID: vString(p + ".NameID"), StatusCode: vString(p + ".StatusCode")}
	if vhNonASCIIIssuer {
		l.Issuer += "\u00e9"
	}
	r := etree.NewElement(tag)
	r.CreateAttr("xmlns:samlp", "urn:oasis:names:tc:SAML:2.0:protocol")
	r.CreateAttr("xmlns:saml", "urn:oasis:names:tc:SAML:2.0:assertion")
	r.CreateAttr("ID", l.ID)
	r.CreateAttr("Version", l.Version)
	r.CreateAttr("Destination", l.Destination)
	r.CreateAttr("InResponseTo", l.InResponseTo)
	r.CreateAttr("vx-sig", vhSigNames[sig])
	r.CreateAttr("vx-name", p)
	vhText2(r, "saml:Issuer", l.Issuer)
	if sig != vhSigNone {
		sg := r.CreateElement("ds:Signature")
		sg.CreateAttr("xmlns:ds", "http://www.w3.org/2000/09/xmldsig#")
	}
	vhText2(r, "saml:NameID", l.NameID)
	st := r.CreateElement("samlp:Status")
	sc := st.CreateElement("samlp:StatusCode")
	sc.CreateAttr("Value", l.StatusCode)
	l.root = r
	return l
}

// VH_C10_logout_post: the two POST validators over {LogoutRequest, LogoutResponse, Response} roots with signature
// none / valid / invalid, a genuine signed logout message wrapped inside an attacker-made root, raw or
// compressed, signature checking on or off.
func VH_C10_logout_post() {
	skip := vFlag("skipSignatureValidation")
	sp := vhOrchSP(skip)
	sp.ServiceProviderSLOURL = vString("slo")
	kinds := []string{"samlp:LogoutRequest", "samlp:LogoutResponse", "samlp:Response"}
	kind := kinds[vChoice("root.kind", 3)]
	l := vhLogoutRoot(kind, vChoice("root.sig", 3), "root")
	if vFlag("foreign-namespace-twin-attributes") {
		// attributes with the same local names in a foreign namespace after the real ones (encoding/xml fills an
		// unqualified `attr` field from every attribute of that local name, the last one wins)
		l.hasTwin = true
		l.twinDestination, l.twinVersion = vString("root.x.Destination"), vString("root.x.Version")
		l.root.CreateAttr("xmlns:x", "urn:example:other")
		l.root.CreateAttr("x:Destination", l.twinDestination)
		l.root.CreateAttr("x:Version", l.twinVersion)
	}
	if kind != "samlp:Response" && vFlag("very-large-message") {
		// more than a thousand elements before the message's own signature
		l.root.CreateAttr("vx-many", "1")
	}
	if vFlag("wraps-genuine") {
		// a genuine, validly signed logout message placed inside the (attacker-made) root
		inner := vhLogoutRoot(kinds[vChoice("inner.kind", 2)], vhSigValid, "inner")
		vAssume(inner.ID != l.ID)
		l.root.CreateElement("samlp:Extensions").AddChild(inner.root)
	}
	if vFlag("earlier-rejected-message") {
		// the process has just refused a message of the wrong kind (attacker-made, unsigned): the next one is judged alone
		e := vhLogoutRoot("samlp:LogoutRequest", vhSigNone, "earlier")
		_, eerr := sp.ValidateEncodedLogoutResponsePOST(vEncodeDoc("wire0", e.root, 0))
		vDebugErr("earlier", eerr)
	}
	enc := vEncodeDoc("wire", l.root, vChoice("wire.mode", 2))
	asRequest := vFlag("validate-as-request")
	rootVerified := !skip && l.sig == vhSigValid

	if asRequest {
		req, err := sp.ValidateEncodedLogoutRequestPOST(enc)
		vDebugErr("request", err)
		vAssert("C09.result-xor-error", (req != nil) != (err != nil))
		vAssert("C02,C05.only-the-sp-clock-is-consulted", vWallReads() == 0)
		if err != nil {
			vReach("request-rejected", true)
			return
		}
		vReach("request-accepted", true)
		vAssert("C10.only-a-LogoutRequest-is-accepted-as-logout-request", kind == "samlp:LogoutRequest")
		vAssert("C02,C10.bad-root-signature-is-fatal", skip || l.sig != vhSigInvalid)
		vAssert("C02,C10.untrusted-or-expired-certificate-is-fatal", vCertRejections() == 0)
		vAssert("C04,C10.request-flag-iff-root-verified", req.SignatureValidated == rootVerified)
		vAssert("C04,C10.request-fields-are-the-roots", vAnd(vAnd(req.ID == l.ID, vOr(req.Destination == l.Destination, l.hasTwin && req.Destination == l.twinDestination)),
			vAnd(vOr(req.Version == l.Version, l.hasTwin && req.Version == l.twinVersion), req.Issuer != nil && req.NameID != nil)))
		if req.Issuer != nil && req.NameID != nil {
			vAssert("C04,C10.request-issuer-and-nameid-are-the-roots", vAnd(req.Issuer.Value == l.Issuer, req.NameID.Value == l.NameID))
		}
		vAssert("C10.accepted-request-passed-the-checks", vAnd(req.Version == "2.0", vOr(req.Destination == "", req.Destination == sp.ServiceProviderSLOURL)))
		if req.Issuer != nil {
			vAssert("C10.accepted-request-issuer", vOr(sp.IdentityProviderIssuer == "", req.Issuer.Value == sp.IdentityProviderIssuer))
		}
		return
	}
	resp, err := sp.ValidateEncodedLogoutResponsePOST(enc)
	vDebugErr("response", err)
	vAssert("C09.result-xor-error", (resp != nil) != (err != nil))
	vAssert("C02,C05.only-the-sp-clock-is-consulted", vWallReads() == 0)
	if err != nil {
		vReach("response-rejected", true)
		return
	}
	vReach("response-accepted", true)
	vAssert("C10.only-a-LogoutResponse-is-accepted-as-logout-response", kind == "samlp:LogoutResponse")
	vAssert("C02,C10.bad-root-signature-is-fatal", skip || l.sig != vhSigInvalid)
	vAssert("C02,C10.untrusted-or-expired-certificate-is-fatal", vCertRejections() == 0)
	vAssert("C04,C10.response-flag-iff-root-verified", resp.SignatureValidated == rootVerified)
	vAssert("C04,C10.response-fields-are-the-roots", vAnd(vAnd(resp.ID == l.ID, resp.InResponseTo == l.InResponseTo),
		vAnd(vOr(resp.Destination == l.Destination, l.hasTwin && resp.Destination == l.twinDestination), vOr(resp.Version == l.Version, l.hasTwin && resp.Version == l.twinVersion))))
	vAssert("C04,C10.response-issuer-is-the-roots", resp.Issuer != nil && resp.Issuer.Value == l.Issuer)
	vAssert("C10.accepted-response-passed-the-checks", vAnd(vAnd(resp.Version == "2.0", vOr(resp.Destination == "", resp.Destination == sp.ServiceProviderSLOURL)),
		resp.Status != nil && resp.Status.StatusCode != nil && resp.Status.StatusCode.Value == "urn:oasis:names:tc:SAML:2.0:status:Success"))
	if resp.Issuer != nil {
		vAssert("C10.accepted-response-issuer", vOr(sp.IdentityProviderIssuer == "", resp.Issuer.Value == sp.IdentityProviderIssuer))
	}
}
