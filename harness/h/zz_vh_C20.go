//go:build verif

package saml2

// VH_C20_predecode: whatever full validation accepts, the key-less pre-decoder decodes too and reports the
// same ID, InResponseTo, Destination, Version and Issuer — raw, compressed, declared in another encoding,
// or base64 without padding; configured decompression limit symbolic.
func VH_C20_predecode() {
	sp := vhOrchSP(false)
	limit := vI64("limit")
	vAssume(vAnd(limit >= 0, limit <= 1<<27))
	sp.MaximumDecompressedBodySize = limit
	s := &vhScenario{rootSig: vChoice("root.sig", 3), issuerOptional: true, attrsOptional: true, nonASCIIIssuer: vFlag("resp.Issuer.non-ascii"), foreignIssuer: vFlag("resp.foreign-issuer-child")}
	s.root = vhResponseRoot(s, "samlp:Response")
	if vFlag("has-assertion") {
		a := vhAssertionEl("c0", vChoice("c0.sig", 3))
		vAssume(a.ID != s.ID)
		s.root.AddChild(a.el)
	}
	mode := vChoice("wire.mode", 4)
	enc := vEncodeDoc("wire", s.root, mode)

	resp, err := sp.ValidateEncodedResponse(enc)
	vDebugErr("validate", err)
	pre, perr := DecodeUnverifiedBaseResponse(enc)
	vDebugErr("predecode", perr)
	vAssert("C09.predecode-result-xor-error", (pre != nil) != (perr != nil))
	if err != nil {
		vReach("rejected", true)
		return
	}
	vReach("accepted", true)
	vAssert("C20.predecode-succeeds-on-everything-validation-accepts", perr == nil)
	if perr != nil || pre == nil {
		return
	}
	vAssert("C20.same-root-attributes", vAnd(vAnd(pre.ID == resp.ID, pre.InResponseTo == resp.InResponseTo), vAnd(pre.Destination == resp.Destination, pre.Version == resp.Version)))
	vAssert("C20.same-issuer-presence", (pre.Issuer == nil) == (resp.Issuer == nil))
	if pre.Issuer != nil && resp.Issuer != nil {
		vAssert("C20.same-issuer", pre.Issuer.Value == resp.Issuer.Value)
	}
}

// VH_C20_predecode_logout: the same for LogoutResponse.
func VH_C20_predecode_logout() {
	sp := vhOrchSP(vFlag("skipSignatureValidation"))
	sp.ServiceProviderSLOURL = vString("slo")
	vhNonASCIIIssuer = vFlag("root.Issuer.non-ascii")
	defer func() { vhNonASCIIIssuer = false }()
	l := vhLogoutRoot("samlp:LogoutResponse", vChoice("root.sig", 3), "root")
	enc := vEncodeDoc("wire", l.root, vChoice("wire.mode", 4))
	resp, err := sp.ValidateEncodedLogoutResponsePOST(enc)
	vDebugErr("validate", err)
	pre, perr := DecodeUnverifiedLogoutResponse(enc)
	vDebugErr("predecode", perr)
	vAssert("C09.predecode-result-xor-error", (pre != nil) != (perr != nil))
	if err != nil {
		vReach("rejected", true)
		return
	}
	vReach("accepted", true)
	vAssert("C20.predecode-succeeds-on-everything-validation-accepts", perr == nil)
	if perr != nil || pre == nil {
		return
	}
	vAssert("C20.same-root-attributes", vAnd(vAnd(pre.ID == resp.ID, pre.InResponseTo == resp.InResponseTo), vAnd(pre.Destination == resp.Destination, pre.Version == resp.Version)))
	vAssert("C20.same-issuer", pre.Issuer != nil && resp.Issuer != nil && pre.Issuer.Value == resp.Issuer.Value)
}
