//go:build verif

package saml2

import (
	"crypto/ecdsa"
	"crypto/tls"

	"github.com/russellhaering/gosaml2/types"
)

// vhEncryptedAssertion: an attacker-made EncryptedAssertion. The attacker knows the SP certificate, so he
// can wrap any symmetric key bytes with any key-transport algorithm, declare any algorithm identifiers
// and choose the post-decryption bytes of the data (ciphertext length 0..maxLen bytes).
// fullTransport=false fixes the key transport to a well-formed RSA-OAEP EncryptedKey (the transport
// dimensions are explored separately by VH_C09_decrypt_symkey; the two stages compose sequentially).
func vhEncryptedAssertion(cert *tls.Certificate, fullTransport bool, maxLen int) *types.EncryptedAssertion {
	return vhEncryptedAssertionAlg(cert, fullTransport, maxLen, "")
}

func vhEncryptedAssertionAlg(cert *tls.Certificate, fullTransport bool, maxLen int, dataAlg string) *types.EncryptedAssertion {
	ea := &types.EncryptedAssertion{}
	if dataAlg != "" {
		ea.EncryptionMethod.Algorithm = dataAlg
	} else {
		ea.EncryptionMethod.Algorithm = vString("ea.alg")
	}
	symKey := vBytes("symkey")
	ek := types.EncryptedKey{}
	dig := ""
	if fullTransport {
		ek.X509Data = vB64Str("ek.x509")
		ek.EncryptionMethod.Algorithm = vString("ek.alg")
		if vFlag("ek.digest.present") {
			dig = vString("ek.digest")
			ek.EncryptionMethod.DigestMethod = &types.DigestMethod{Algorithm: dig}
		}
		if vFlag("ek.cv.nonempty") {
			ek.CipherValue = vWrapKey("ek.cv", vRSAKey("sp"), ek.EncryptionMethod.Algorithm, dig, symKey)
		}
	} else {
		ek.EncryptionMethod.Algorithm = types.MethodRSAOAEP
		ek.CipherValue = vWrapKey("ek.cv", vRSAKey("sp"), types.MethodRSAOAEP, "", symKey)
	}
	if vFlag("ek.inline") {
		ea.EncryptedKey = ek
	} else {
		ea.DetEncryptedKey = ek
	}
	ea.CipherValue = vCipherValue("cv", ea.EncryptionMethod.Algorithm, symKey, maxLen)
	return ea
}

func vhSPCert() *tls.Certificate {
	c := &tls.Certificate{}
	switch vChoice("spcert.shape", 3) {
	case 0:
		c.Certificate = [][]byte{vBytes("spcert")}
		c.PrivateKey = vRSAKey("sp")
	case 1: // no public certificate attached
		c.PrivateKey = vRSAKey("sp")
	case 2: // non-RSA private key
		c.Certificate = [][]byte{vBytes("spcert")}
		c.PrivateKey = &ecdsa.PrivateKey{}
	}
	return c
}

// vhC09DecryptBytes: DecryptBytes returns normally for every ciphertext (panic obligations generated
// by the executor: slice bounds, index, nil dereference, explicit panics of the cipher primitives).
func vhC09DecryptBytes(maxLen int) {
	cert := &tls.Certificate{Certificate: [][]byte{vBytes("spcert")}, PrivateKey: vRSAKey("sp")}
	ea := vhEncryptedAssertion(cert, false, maxLen)
	out, err := ea.DecryptBytes(cert)
	vReach("decrypted", err == nil)
	vReach("error", err != nil)
	if err != nil {
		vAssert("C09.error-implies-no-plaintext", out == nil)
	}
}

func VH_C09_decrypt_bytes()      { vhC09DecryptBytes(32) }
func VH_C09_decrypt_bytes_deep() { vhC09DecryptBytes(64) }

// VH_C09_decrypt_symkey: key unwrap with every algorithm / digest / recipient-certificate / key-type combination.
func VH_C09_decrypt_symkey() {
	cert := vhSPCert()
	ea := vhEncryptedAssertion(cert, true, 0)
	ek := &ea.EncryptedKey
	if ek.CipherValue == "" {
		ek = &ea.DetEncryptedKey
	}
	blk, err := ek.DecryptSymmetricKey(cert)
	vReach("key", err == nil)
	vReach("error", err != nil)
	vAssert("C09.symkey-result-xor-error", (blk != nil) != (err != nil))
}
