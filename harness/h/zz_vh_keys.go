//go:build verif

package saml2

import (
	"crypto"
	"crypto/rsa"
	"crypto/tls"
	"errors"
	"io"

	"github.com/russellhaering/gosaml2/types"
	dsig "github.com/russellhaering/goxmldsig"
)

// Key stores and signers used by the key-selection harnesses (natively runnable).
type vhKS struct {
	key  *rsa.PrivateKey
	cert []byte
	fail bool // the key store is (transiently) unavailable
}

var errVHKeyStore = errors.New("vh: key store unavailable")

func (k *vhKS) GetKeyPair() (*rsa.PrivateKey, []byte, error) {
	if k.fail {
		return nil, nil, errVHKeyStore
	}
	return k.key, k.cert, nil
}

type vhSigner struct{ id int }

func (s *vhSigner) Public() crypto.PublicKey { return &rsa.PublicKey{} }
func (s *vhSigner) Sign(rand io.Reader, digest []byte, opts crypto.SignerOpts) ([]byte, error) {
	return nil, errors.New("vh: signer not available in this harness")
}

// vhKeyCfg: the four ways of configuring keys (F = deprecated field, O = setter override; e = encryption
// / default signing key, s = explicit signing key) and the selections DESIGN B.8 prescribes.
type vhKeyCfg struct {
	Fe, Fs, Oe, Os bool
	FsFail         bool // the explicit signing key store (field) fails to deliver its key pair
	keyA, keyB     *rsa.PrivateKey
	sigC, sigD     *vhSigner
	certA, certB   []byte
	certC, certD   []byte
	signFieldKey   *rsa.PrivateKey // expected signing key when it comes from a field key store
	signSigner     crypto.Signer   // expected signing key when it comes from a setter
	signCert       []byte
	haveSign       bool
	decFieldKey    *rsa.PrivateKey
	decSigner      crypto.Signer
	decCert        []byte
	haveDec        bool
}

func vhConfigureKeys(sp *SAMLServiceProvider, tlsField bool) *vhKeyCfg {
	c := &vhKeyCfg{Fe: vFlag("cfg.SPKeyStore"), Fs: vFlag("cfg.SPSigningKeyStore"), Oe: vFlag("cfg.SetSPKeyStore"), Os: vFlag("cfg.SetSPSigningKeyStore")}
	c.keyA, c.keyB = &rsa.PrivateKey{}, &rsa.PrivateKey{}
	c.sigC, c.sigD = &vhSigner{id: 3}, &vhSigner{id: 4}
	c.certA, c.certB, c.certC, c.certD = vBytes("certA"), vBytes("certB"), vBytes("certC"), vBytes("certD")
	if c.Fe {
		if tlsField {
			sp.SPKeyStore = dsig.TLSCertKeyStore(tls.Certificate{Certificate: [][]byte{c.certA}, PrivateKey: c.keyA})
		} else {
			sp.SPKeyStore = &vhKS{key: c.keyA, cert: c.certA}
		}
	}
	if c.Fs {
		c.FsFail = vFlag("cfg.SPSigningKeyStore.unavailable")
		sp.SPSigningKeyStore = &vhKS{key: c.keyB, cert: c.certB, fail: c.FsFail}
	}
	if c.Oe {
		sp.SetSPKeyStore(&KeyStore{Signer: c.sigC, Cert: c.certC})
	}
	if c.Os {
		sp.SetSPSigningKeyStore(&KeyStore{Signer: c.sigD, Cert: c.certD})
	}
	// B.8: sign_key = O_s ?: F_s ?: O_e ?: F_e ; dec_key = O_e ?: F_e
	switch {
	case c.Os:
		c.signSigner, c.signCert, c.haveSign = c.sigD, c.certD, true
	case c.Fs:
		c.signFieldKey, c.signCert, c.haveSign = c.keyB, c.certB, true
	case c.Oe:
		c.signSigner, c.signCert, c.haveSign = c.sigC, c.certC, true
	case c.Fe:
		c.signFieldKey, c.signCert, c.haveSign = c.keyA, c.certA, true
	}
	switch {
	case c.Oe:
		c.decSigner, c.decCert, c.haveDec = c.sigC, c.certC, true
	case c.Fe:
		c.decFieldKey, c.decCert, c.haveDec = c.keyA, c.certA, true
	}
	return c
}

// vhSigningKeyMatches: the signing context really uses the expected key and embeds the expected certificate.
func vhSigningKeyMatches(ctx *dsig.SigningContext, c *vhKeyCfg) (keyOK bool, certOK bool) {
	if ctx.KeyStore != nil {
		k, crt, err := ctx.KeyStore.GetKeyPair()
		if err != nil {
			return false, false
		}
		return c.signFieldKey != nil && k == c.signFieldKey, vBytesEq(crt, c.signCert)
	}
	s := vCtxSigner(ctx)
	certs := vCtxCerts(ctx)
	if s == nil {
		return false, false
	}
	return c.signSigner != nil && s == c.signSigner, len(certs) == 1 && vBytesEq(certs[0], c.signCert)
}

func vhFindKeyDescriptor(md *types.EntityDescriptor, use string) (*types.KeyDescriptor, int) {
	var found *types.KeyDescriptor
	n := 0
	if md == nil || md.SPSSODescriptor == nil {
		return nil, 0
	}
	for i := range md.SPSSODescriptor.KeyDescriptors {
		kd := &md.SPSSODescriptor.KeyDescriptors[i]
		if kd.Use == use {
			if found == nil {
				found = kd
			}
			n++
		}
	}
	return found, n
}

func vhDescriptorCert(kd *types.KeyDescriptor) (string, bool) {
	cs := kd.KeyInfo.X509Data.X509Certificates
	if len(cs) != 1 {
		return "", false
	}
	return cs[0].Data, true
}

// VH_C13_signing_key: for all 16 key configurations the key SigningContext() signs with, the certificate it
// embeds, GetSigningCertBytes() and the signing KeyDescriptor of Metadata() are one and the same (B.8).
func VH_C13_signing_key() {
	sp := &SAMLServiceProvider{Clock: vClock("sp"), SignAuthnRequestsAlgorithm: vString("sigAlg")}
	c := vhConfigureKeys(sp, false)
	if vFlag("rejected-setter-call") {
		// a key store without a signer is refused by the setter; the refused call must leave the configuration alone
		serr := sp.SetSPSigningKeyStore(&KeyStore{Cert: vBytes("rejectedCert")})
		vAssert("C13.signer-less-key-store-is-refused", serr != nil)
	}
	reported, rerr := sp.GetSigningCertBytes()
	if c.haveSign && c.signFieldKey == c.keyB && c.FsFail {
		vReach("signing-store-unavailable", true)
		vAssert("C13.unavailable-signing-store-is-an-error-not-another-key", rerr != nil)
		return
	}
	if !c.haveSign {
		// no key at all: the SP cannot sign; only the reported certificate is checked
		vReach("no-key", true)
		vAssert("C13.no-key-no-reported-cert", rerr != nil)
		return
	}
	var ctx *dsig.SigningContext
	panicked := vPanicked(func() { ctx = sp.SigningContext() })
	vAssert("C13.signing-context-never-panics", !panicked)
	if panicked {
		return
	}
	keyOK, certOK := vhSigningKeyMatches(ctx, c)
	vAssert("C13,C14.signs-with-explicit-signing-key-else-encryption-key(setter-over-field)", keyOK)
	vAssert("C13,C14.embeds-certificate-of-that-key", certOK)
	if rerr == nil {
		vReach("reported", true)
		vAssert("C13.reported-signing-cert-is-the-cert-of-the-key-used", vBytesEq(reported, c.signCert))
	} else {
		vAssert("C13.reported-cert-error-only-when-empty", len(c.signCert) == 0)
	}
	// a later call signs with the same key and embeds the same certificate (cached or rebuilt)
	k2, c2 := vhSigningKeyMatches(sp.SigningContext(), c)
	vAssert("C13,C14.later-calls-use-the-same-key-and-certificate", k2 && c2)
}

// VH_C19_keys: published KeyDescriptors match the keys really used.
func VH_C19_keys() {
	sp := &SAMLServiceProvider{Clock: vClock("sp"), ServiceProviderIssuer: vString("spIssuer"), AssertionConsumerServiceURL: vString("acs")}
	c := vhConfigureKeys(sp, vFlag("cfg.fieldIsTLSCert"))
	if !c.haveDec {
		// the documentation requires an encryption key (field or setter); without one the SP is not configured
		return
	}
	md, err := sp.Metadata()
	vAssert("C19.result-xor-error", (md != nil) != (err != nil))
	if c.haveSign && c.signFieldKey == c.keyB && c.FsFail {
		vReach("signing-store-unavailable", true)
		vAssert("C19.unavailable-signing-store-is-an-error-not-another-key", err != nil)
		return
	}
	if err != nil {
		// only an empty certificate of a key that must be published may make metadata fail
		vAssert("C19.metadata-error-only-for-empty-published-cert", vOr(c.haveSign && len(c.signCert) == 0, c.haveDec && len(c.decCert) == 0))
		return
	}
	vReach("metadata", true)
	skd, ns := vhFindKeyDescriptor(md, "signing")
	ekd, ne := vhFindKeyDescriptor(md, "encryption")
	vAssert("C19.signing-descriptor-present-iff-sp-can-sign", (ns == 1) == c.haveSign && ns <= 1)
	if skd != nil && c.haveSign {
		d, ok := vhDescriptorCert(skd)
		vAssert("C19.signing-descriptor-is-cert-of-signing-key", vAnd(ok, d == vB64(c.signCert)))
	}
	vAssert("C19.encryption-descriptor-present-iff-sp-can-decrypt", (ne == 1) == c.haveDec && ne <= 1)
	if ekd != nil && c.haveDec {
		d, ok := vhDescriptorCert(ekd)
		vAssert("C19,C11.encryption-descriptor-is-cert-of-decryption-key", vAnd(ok, d == vB64(c.decCert)))
	}
	// the key that really decrypts (C11): getDecryptCert
	dc, derr := sp.getDecryptCert()
	if c.haveDec {
		vAssert("C19,C11.configured-decryption-key-is-usable", derr == nil)
		if derr == nil {
			vReach("decrypt-key", true)
			okKey := false
			if c.decFieldKey != nil {
				k, isRSA := dc.PrivateKey.(*rsa.PrivateKey)
				okKey = isRSA && k == c.decFieldKey
			} else {
				s, isSigner := dc.PrivateKey.(crypto.Signer)
				okKey = isSigner && s == c.decSigner
			}
			vAssert("C19,C11.decrypts-with-the-key-whose-cert-is-published(setter-over-field)", okKey)
			vAssert("C19.decrypt-cert-is-published-cert", len(dc.Certificate) >= 1 && vBytesEq(dc.Certificate[0], c.decCert))
		}
	} else {
		vAssert("C19.no-key-no-decryption", derr != nil)
	}
}

// VH_C19_fields: entity id, endpoints, flags and validity.
func VH_C19_fields() {
	sp := &SAMLServiceProvider{}
	vhNoiseConfig(sp) // IdP endpoints / bindings, request options: nothing of this may show in the SP's own metadata
	sp.Clock, sp.ServiceProviderIssuer, sp.AssertionConsumerServiceURL = vClock("sp"), vString("spIssuer"), vString("acs")
	sp.ServiceProviderSLOURL, sp.SignAuthnRequests, sp.SkipSignatureValidation = vString("slo"), vBool("signAuthn"), vBool("skipSig")
	sp.AudienceURI, sp.IdentityProviderIssuer = vString("cfg.audience"), vString("cfg.idpIssuer")
	sp.SPKeyStore = &vhKS{key: &rsa.PrivateKey{}, cert: vBytes("certA")}
	vAssume(len(sp.SPKeyStore.(*vhKS).cert) > 0)
	slo := vFlag("withSLO")
	hours := vI64("hours")
	var md *types.EntityDescriptor
	var err error
	if slo {
		vAssume(hours <= 2562047) // hours * 3.6e12 ns fits in int64
		md, err = sp.MetadataWithSLO(hours)
	} else {
		md, err = sp.Metadata()
	}
	vAssert("C19.metadata-succeeds-with-a-configured-key", err == nil && md != nil)
	if err != nil || md == nil {
		return
	}
	vReach("metadata", true)
	vAssert("C19.entity-id-is-sp-issuer", md.EntityID == sp.ServiceProviderIssuer)
	// (native replay only) the descriptor serialises to well-formed XML that parses back to the same values
	back := &types.EntityDescriptor{}
	if vMarshalRoundTrip(md, back) && back.SPSSODescriptor != nil && len(back.SPSSODescriptor.AssertionConsumerServices) == 1 {
		vAssert("C19.xml-round-trip-keeps-entity-id-and-acs", back.EntityID == md.EntityID &&
			back.SPSSODescriptor.AssertionConsumerServices[0].Location == md.SPSSODescriptor.AssertionConsumerServices[0].Location &&
			len(back.SPSSODescriptor.KeyDescriptors) == len(md.SPSSODescriptor.KeyDescriptors))
	}
	d := md.SPSSODescriptor
	vAssert("C19.has-sp-descriptor", d != nil)
	if d == nil {
		return
	}
	vAssert("C19.authn-requests-signed-flag", vIff(d.AuthnRequestsSigned, sp.SignAuthnRequests))
	vAssert("C19.want-assertions-signed-flag", vIff(d.WantAssertionsSigned, vNot(sp.SkipSignatureValidation)))
	vAssert("C19.protocol-enumeration", d.ProtocolSupportEnumeration == "urn:oasis:names:tc:SAML:2.0:protocol")
	okACS := len(d.AssertionConsumerServices) == 1
	if okACS {
		a := d.AssertionConsumerServices[0]
		vAssert("C19.acs-location-and-post-binding", vAnd(a.Location == sp.AssertionConsumerServiceURL, a.Binding == "urn:oasis:names:tc:SAML:2.0:bindings:HTTP-POST"))
	}
	vAssert("C19.one-acs", okACS)
	if slo {
		okSLO := len(d.SingleLogoutServices) == 1
		vAssert("C19.one-slo-service", okSLO)
		if okSLO {
			s := d.SingleLogoutServices[0]
			vAssert("C19.slo-location-and-post-binding", vAnd(s.Location == sp.ServiceProviderSLOURL, s.Binding == "urn:oasis:names:tc:SAML:2.0:bindings:HTTP-POST"))
		}
	}
	// validity
	vAssert("C19.sp-clock-consulted", vClockReads("sp") >= 1)
	if reads := vClockReads("sp"); reads >= 1 {
		const hour = int64(3600) * 1000000000
		okSome := false
		for k := 0; k < reads && k < 4; k++ {
			now := vClockAt("sp", k)
			vAssume(vAnd(now >= 0, now <= 4102444800000000000)) // 1970..2100: no int64 wrap when adding the validity
			want := now + 7*24*hour
			if slo {
				want = vIteI(hours <= 0, now+7*24*hour, now+hours*hour)
			}
			okSome = vOr(okSome, vNs(md.ValidUntil) == want)
		}
		vAssert("C19.valid-until-is-clock-plus-validity", okSome)
		vAssert("C19.valid-until-in-utc", vIsUTC(md.ValidUntil))
	}
	// advertised encryption methods are decryptable ones
	ekd, _ := vhFindKeyDescriptor(md, "encryption")
	if ekd != nil {
		all := true
		for _, m := range ekd.EncryptionMethods {
			switch m.Algorithm {
			case types.MethodAES128GCM, types.MethodAES192GCM, types.MethodAES256GCM, types.MethodAES128CBC, types.MethodAES256CBC:
			default:
				all = false
			}
		}
		vAssert("C19.only-decryptable-encryption-methods-advertised", all)
		vReach("methods", len(ekd.EncryptionMethods) > 0)
	}
}
