//go:build verif

package saml2

import (
	"crypto"

	"github.com/beevik/etree"
	dsig "github.com/russellhaering/goxmldsig"
)

// vhCanon: a caller-configured canonicaliser (delegates to the exclusive one so that native replays verify).
type vhCanon struct{ inner dsig.Canonicalizer }

func (c *vhCanon) Canonicalize(el *etree.Element) ([]byte, error) { return c.inner.Canonicalize(el) }
func (c *vhCanon) Algorithm() dsig.AlgorithmID                    { return c.inner.Algorithm() }

// vhExpectedSigning: the algorithm identifiers the configuration prescribes (library default: RSA-SHA256).
func vhExpectedSigning(alg string) (crypto.Hash, string, string) {
	switch alg {
	case "http://www.w3.org/2000/09/xmldsig#rsa-sha1":
		return crypto.SHA1, alg, "http://www.w3.org/2000/09/xmldsig#sha1"
	case "http://www.w3.org/2001/04/xmldsig-more#rsa-sha384":
		return crypto.SHA384, alg, "http://www.w3.org/2001/04/xmldsig-more#sha384"
	case "http://www.w3.org/2001/04/xmldsig-more#rsa-sha512":
		return crypto.SHA512, alg, "http://www.w3.org/2001/04/xmlenc#sha512"
	}
	return crypto.SHA256, "http://www.w3.org/2001/04/xmldsig-more#rsa-sha256", "http://www.w3.org/2001/04/xmlenc#sha256"
}

// vhCheckSignedRoot: Issuer first, then exactly one ds:Signature (index 1), then the other children; the
// Signature carries SignedInfo / SignatureValue / KeyInfo with the signing certificate, references the
// message ID, declares the enveloped transform, and its digest was computed over the whole message as
// returned minus the Signature itself.
func vhCheckSignedRoot(sp *SAMLServiceProvider, root *etree.Element, rest []string, cert []byte) {
	wantHash, wantSigAlg, wantDigestAlg := vhExpectedSigning(sp.SignAuthnRequestsAlgorithm)
	wantC14N := "http://www.w3.org/2006/12/xml-c14n11"
	if sp.SignAuthnRequestsCanonicalizer != nil {
		wantC14N = string(sp.SignAuthnRequestsCanonicalizer.Algorithm())
	}
	names := vhChildNames(root)
	want := append([]string{"saml:Issuer", "ds:Signature"}, rest...)
	vAssert("C13.signature-immediately-after-issuer", vhSameNames(names, want...))
	if !vhSameNames(names, want...) {
		return
	}
	sig := root.Child[1].(*etree.Element)
	vAssert("C13.signature-children", vhSameNames(vhChildNames(sig), "ds:SignedInfo", "ds:SignatureValue", "ds:KeyInfo"))
	id, _ := vhAttr(root, "ID")
	si := sig.SelectElement("SignedInfo")
	if si == nil {
		vAssert("C13.signedinfo-present", false)
		return
	}
	ref := si.SelectElement("Reference")
	vAssert("C13.reference-present", ref != nil)
	if ref != nil {
		uri, n := vhAttr(ref, "URI")
		vAssert("C13.reference-is-the-message-id", vAnd(n == 1, uri == "#"+id))
		enveloped := false
		if tr := ref.SelectElement("Transforms"); tr != nil {
			for _, t := range tr.ChildElements() {
				if a, _ := vhAttr(t, "Algorithm"); a == "http://www.w3.org/2000/09/xmldsig#enveloped-signature" {
					enveloped = true
				}
			}
		}
		vAssert("C13.enveloped-signature-transform-declared", enveloped)
		if dm := ref.SelectElement("DigestMethod"); dm != nil {
			da, _ := vhAttr(dm, "Algorithm")
			vAssert("C13.declared-digest-method-is-the-configured-hash", da == wantDigestAlg)
		}
		c14nDeclared := false
		if tr := ref.SelectElement("Transforms"); tr != nil {
			for _, t := range tr.ChildElements() {
				if a, _ := vhAttr(t, "Algorithm"); a == wantC14N {
					c14nDeclared = true
				}
			}
		}
		vAssert("C13.reference-declares-the-configured-canonicaliser", c14nDeclared)
	}
	if cm := si.SelectElement("CanonicalizationMethod"); cm != nil {
		ca, _ := vhAttr(cm, "Algorithm")
		vAssert("C13.declared-canonicalisation-is-the-configured-one-or-the-default", ca == wantC14N)
		vAssert("C13.digests-use-the-configured-canonicaliser-object", vDigestCanonIs(0, sp.SignAuthnRequestsCanonicalizer) && vDigestCanonIs(1, sp.SignAuthnRequestsCanonicalizer))
	} else {
		vAssert("C13.canonicalisation-method-present", false)
	}
	if sm := si.SelectElement("SignatureMethod"); sm != nil {
		alg, _ := vhAttr(sm, "Algorithm")
		vAssert("C13.declared-signature-method-is-the-one-used", alg == sp.SigningContext().GetSignatureMethodIdentifier() && alg != "")
		vAssert("C13.signature-method-is-the-configured-one-or-the-default", alg == wantSigAlg)
		vAssert("C13.digest-and-signature-computed-with-the-configured-hash", vDigestHashIs(0, wantHash) && vDigestHashIs(1, wantHash))
	} else {
		vAssert("C13.signature-method-present", false)
	}
	// embedded certificate
	ki := sig.SelectElement("KeyInfo")
	okCert := false
	if ki != nil {
		if xd := ki.SelectElement("X509Data"); xd != nil {
			cs := xd.ChildElements()
			if len(cs) == 1 {
				t, tok := vhText(cs[0])
				okCert = tok
				vAssert("C13.embedded-certificate-is-the-signing-certificate", t == vB64(cert))
			}
		}
	}
	vAssert("C13.one-embedded-certificate", okCert)
	// the digest covers the message as returned (without the signature)
	vAssert("C13.signature-covers-the-whole-returned-message", vSignatureCovers(root, 1))
}

// VH_C13_signed_documents: the three signed builders; a key store / signer that fails makes the build fail
// (never an unsigned document with a nil error).
func VH_C13_signed_documents() {
	sp := vhBuilderSP()
	sp.SignAuthnRequests = true
	sp.SignAuthnRequestsAlgorithm = vString("signAlgorithmConfigured")
	if vFlag("custom-canonicalizer") {
		sp.SignAuthnRequestsCanonicalizer = &vhCanon{inner: dsig.MakeC14N10ExclusiveCanonicalizerWithPrefixList("")}
	}
	key := vRSAKey("sp")
	cert := vSPCertBytes()
	ks := &vhKS{key: key, cert: cert, fail: vFlag("keystore.unavailable")}
	sp.SPKeyStore = ks
	vRandInstall()
	var doc *etree.Document
	var err error
	var rest []string
	kind := vChoice("kind", 3)
	if kind != 0 {
		// logout messages are signed whether or not AuthnRequest signing is switched on
		sp.SignAuthnRequests = vFlag("signAuthnRequests")
	}
	switch kind {
	case 0:
		doc, err = sp.BuildAuthRequestDocument()
		rest = []string{"samlp:NameIDPolicy"}
	case 1:
		doc, err = sp.BuildLogoutRequestDocument(vString("nameID"), vString("sessionIndex"))
		rest = []string{"saml:NameID", "samlp:SessionIndex"}
	case 2:
		doc, err = sp.BuildLogoutResponseDocument(vString("status"), vString("reqID"))
		rest = []string{"samlp:Status"}
	}
	vDebugErr("build", err)
	vAssert("C13.result-xor-error", (doc != nil) != (err != nil))
	if ks.fail {
		vReach("keystore-unavailable", true)
		vAssert("C13.unavailable-key-store-fails-the-build", err != nil)
		return
	}
	vAssert("C13.build-succeeds", err == nil)
	if err != nil || doc == nil || doc.Root() == nil {
		return
	}
	vReach("signed", true)
	vhCheckSignedRoot(sp, doc.Root(), rest, cert)
	vAssert("C13.signed-with-the-sp-key", vSignDigestKeyIs(key))
}

// VH_C13_sign_is_pure: Sign* return a fresh element and leave the element they are given untouched.
func VH_C13_sign_is_pure() {
	sp := vhBuilderSP()
	key := vRSAKey("sp")
	sp.SPKeyStore = &vhKS{key: key, cert: vBytes("spcert")}
	vRandInstall()
	var doc *etree.Document
	var err error
	kind := vChoice("kind", 3)
	switch kind {
	case 0:
		doc, err = sp.BuildAuthRequestDocumentNoSig()
	case 1:
		doc, err = sp.BuildLogoutRequestDocumentNoSig(vString("nameID"), vString("sessionIndex"))
	case 2:
		doc, err = sp.BuildLogoutResponseDocumentNoSig(vString("status"), vString("reqID"))
	}
	if err != nil || doc == nil || doc.Root() == nil {
		return
	}
	el := doc.Root()
	before := vTreeSig(el)
	var signed *etree.Element
	switch kind {
	case 0:
		signed, err = sp.SignAuthnRequest(el)
	case 1:
		signed, err = sp.SignLogoutRequest(el)
	case 2:
		signed, err = sp.SignLogoutResponse(el)
	}
	vDebugErr("sign", err)
	vAssert("C13,C15,C17.signing-does-not-modify-its-input", vTreeSig(el) == before)
	if err != nil {
		return
	}
	vReach("signed", true)
	vAssert("C13.signed-element-is-a-fresh-copy", signed != nil && signed != el)
	// a second signing of the same input gives an equally shaped message (one Signature, not two)
	var again *etree.Element
	switch kind {
	case 0:
		again, err = sp.SignAuthnRequest(el)
	case 1:
		again, err = sp.SignLogoutRequest(el)
	case 2:
		again, err = sp.SignLogoutResponse(el)
	}
	if err == nil && again != nil && signed != nil {
		vAssert("C13,C15.re-signing-the-same-input-gives-the-same-shape", vhSameNames(vhChildNames(again), vhChildNames(signed)...))
	}
}
