//go:build verif

package saml2

import (
	"github.com/russellhaering/gosaml2/types"
)

// Specification of the logout checks (DESIGN B.6).
func vhLogoutSpec(sp *SAMLServiceProvider, version, dest string, issuer *types.Issuer) bool {
	ok := version == "2.0"
	ok = vAnd(ok, vOr(dest == "", dest == sp.ServiceProviderSLOURL))
	ok = vAnd(ok, issuer != nil)
	if issuer != nil {
		ok = vAnd(ok, vOr(sp.IdentityProviderIssuer == "", issuer.Value == sp.IdentityProviderIssuer))
	}
	return ok
}

func vhLogoutTypedError(sp *SAMLServiceProvider, err error, version, dest string, issuer *types.Issuer, status *types.Status, isResponse bool) {
	switch e := err.(type) {
	case ErrMissingElement:
		named := false
		switch e.Tag {
		case "Issuer":
			named = issuer == nil
		case "Status":
			named = isResponse && status == nil
		case "StatusCode":
			named = isResponse && status != nil && status.StatusCode == nil
		}
		vAssert("C10.typed-error.missing-names-violated-conjunct", vAnd(named, e.Attribute == ""))
		vReach("err.missing", true)
	case ErrInvalidValue:
		named := false
		switch e.Key {
		case "Destination":
			named = vAnd(vAnd(dest != "", dest != sp.ServiceProviderSLOURL), vAnd(e.Expected == sp.ServiceProviderSLOURL, e.Actual == dest))
		case "SAML version":
			named = vAnd(version != "2.0", e.Reason == "Unsupported")
		case "Issuer":
			if issuer != nil {
				named = vAnd(vAnd(sp.IdentityProviderIssuer != "", issuer.Value != sp.IdentityProviderIssuer), e.Expected == sp.IdentityProviderIssuer)
			}
		case "StatusCode":
			if isResponse && status != nil && status.StatusCode != nil {
				named = status.StatusCode.Value != "urn:oasis:names:tc:SAML:2.0:status:Success"
			}
		}
		vAssert("C10.typed-error.invalid-names-violated-conjunct", named)
		vReach("err.invalid", true)
	default:
		vAssert("C10.typed-error.type", false)
	}
}

func VH_C10_logout_request() {
	sp := vhSP("sp")
	req := &LogoutRequest{ID: vString("req.ID"), Version: vString("req.Version"), Destination: vString("req.Destination")}
	req.Issuer = vhIssuer("req.Issuer")
	if vFlag("req.NameID.present") {
		req.NameID = &types.NameID{Value: vString("req.NameID")}
	}
	err := sp.ValidateDecodedLogoutRequest(req)
	spec := vhLogoutSpec(sp, req.Version, req.Destination, req.Issuer)
	vReach("accepted", err == nil)
	vReach("rejected", err != nil)
	if err == nil {
		vAssert("C10.request.accept-implies-checks", spec)
	} else {
		vAssert("C10.request.reject-implies-violation", vNot(spec))
		vhLogoutTypedError(sp, err, req.Version, req.Destination, req.Issuer, nil, false)
	}
}

func VH_C10_logout_response() {
	sp := vhSP("sp")
	resp := &types.LogoutResponse{ID: vString("resp.ID"), InResponseTo: vString("resp.InResponseTo"), Version: vString("resp.Version"), Destination: vString("resp.Destination")}
	resp.Issuer = vhIssuer("resp.Issuer")
	switch vChoice("resp.status", 3) {
	case 1:
		resp.Status = &types.Status{}
	case 2:
		resp.Status = &types.Status{StatusCode: &types.StatusCode{Value: vString("resp.StatusCode")}}
	}
	err := sp.ValidateDecodedLogoutResponse(resp)
	spec := vhLogoutSpec(sp, resp.Version, resp.Destination, resp.Issuer)
	if resp.Status != nil && resp.Status.StatusCode != nil {
		spec = vAnd(spec, resp.Status.StatusCode.Value == "urn:oasis:names:tc:SAML:2.0:status:Success")
	} else {
		spec = false
	}
	vReach("accepted", err == nil)
	vReach("rejected", err != nil)
	if err == nil {
		vAssert("C10.response.accept-implies-checks", spec)
	} else {
		vAssert("C10.response.reject-implies-violation", vNot(spec))
		vhLogoutTypedError(sp, err, resp.Version, resp.Destination, resp.Issuer, resp.Status, true)
	}
}
