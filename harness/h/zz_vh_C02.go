//go:build verif

package saml2

import (
	"crypto/x509"

	"github.com/beevik/etree"
	dsig "github.com/russellhaering/goxmldsig"
)

// VH_C02_trust_store: the configured certificate store spelled out — 0..2 IdP certificates with arbitrary
// validity periods — and a message validly signed by IdP key 0, IdP key 1 or a key no store holds, with or
// without a KeyInfo certificate, through the four validating entry points. Optionally the SP has validated
// another message under an earlier store configuration first (long-lived SP, certificate roll-over).
// Accepting implies: a certificate of the signing key is in the store configured at that moment, it is named by
// KeyInfo or is the store's only certificate, and the SP clock lies inside its validity period.
func VH_C02_trust_store() {
	sp := vhOrchSP(false)
	sp.ServiceProviderSLOURL = vString("slo")
	if vFlag("earlier-configuration") {
		// an earlier life of the same SP object: the store held IdP certificate 0 only
		sp.IDPCertificateStore = &dsig.MemoryX509CertificateStore{Roots: []*x509.Certificate{vStoreCert(0)}}
		w := vhLogoutRoot("samlp:LogoutRequest", vhSigValid, "warm")
		w.root.CreateAttr("vx-signer", "0")
		w.root.CreateAttr("vx-keyinfo", "1")
		_, werr := sp.ValidateEncodedLogoutRequestPOST(vEncodeDoc("wire0", w.root, 0))
		vDebugErr("warm-up", werr)
	}
	n := vChoice("store.certs", 3)
	var roots []*x509.Certificate
	for i := 0; i < n; i++ {
		roots = append(roots, vStoreCert(i))
	}
	sp.IDPCertificateStore = &dsig.MemoryX509CertificateStore{Roots: roots}
	before := vClockReads("sp")

	signer := vChoice("signer", 3)
	keyinfo := vFlag("keyinfo")
	var root, signed *etree.Element
	entry := vChoice("entry", 4)
	switch entry {
	case 0, 1:
		s := &vhScenario{rootSig: vhSigNone}
		asig := vhSigValid
		if vFlag("root-signed") {
			s.rootSig, asig = vhSigValid, vhSigNone
		}
		s.root = vhResponseRoot(s, "samlp:Response")
		a := vhAssertionEl("c0", asig)
		vAssume(a.ID != s.ID)
		s.root.AddChild(a.el)
		root, signed = s.root, a.el
		if s.rootSig == vhSigValid {
			signed = s.root
		}
	case 2:
		root = vhLogoutRoot("samlp:LogoutRequest", vhSigValid, "root").root
		signed = root
	case 3:
		root = vhLogoutRoot("samlp:LogoutResponse", vhSigValid, "root").root
		signed = root
	}
	signed.CreateAttr("vx-signer", string(rune('0'+signer)))
	if keyinfo {
		signed.CreateAttr("vx-keyinfo", "1")
	} else {
		signed.CreateAttr("vx-keyinfo", "0")
	}
	enc := vEncodeDoc("wire", root, 0)
	var err error
	switch entry {
	case 0:
		_, err = sp.ValidateEncodedResponse(enc)
	case 1:
		_, err = sp.RetrieveAssertionInfo(enc)
	case 2:
		_, err = sp.ValidateEncodedLogoutRequestPOST(enc)
	case 3:
		_, err = sp.ValidateEncodedLogoutResponsePOST(enc)
	}
	vDebugErr("validate", err)
	vReach("accepted", err == nil)
	vReach("rejected", err != nil)
	if err != nil {
		return
	}
	vAssert("C02,C04,C01,C10.only-a-certificate-in-the-configured-store-vouches", signer < n)
	vAssert("C02,C04,C01,C10.a-message-without-certificate-is-checked-only-against-a-single-certificate-store", keyinfo || n == 1)
	if signer < n {
		inWindow := false
		for r := before; r < vClockReads("sp"); r++ {
			t := vClockAt("sp", r)
			inWindow = vOr(inWindow, vAnd(vStoreCertNotBefore(signer) <= t, t <= vStoreCertNotAfter(signer)))
		}
		vAssert("C02,C04,C01,C10.the-vouching-certificate-is-valid-at-the-sp-clock", inWindow)
	}
}

// VH_C01_no_store: signature checking is on but no certificate store is configured (nil): nothing can be
// verified, so no SSO response may be accepted. The messages here carry no signature at all (a signed one makes
// goxmldsig dereference the nil store, which is a configuration error outside the claim).
func VH_C01_no_store() {
	sp := vhOrchSP(false)
	sp.IDPCertificateStore = nil
	s := &vhScenario{rootSig: vhSigNone}
	s.root = vhResponseRoot(s, "samlp:Response")
	a := vhAssertionEl("c0", vhSigNone)
	vAssume(a.ID != s.ID)
	s.root.AddChild(a.el)
	enc := vEncodeDoc("wire", s.root, vChoice("wire.mode", 2))
	var err error
	if vFlag("via-retrieve") {
		_, err = sp.RetrieveAssertionInfo(enc)
	} else {
		_, err = sp.ValidateEncodedResponse(enc)
	}
	vDebugErr("validate", err)
	vReach("rejected", err != nil)
	vAssert("C01,C02,C04.without-a-certificate-store-nothing-is-accepted", err != nil)
}

// VH_C01_results_isolated: a Response (unsigned envelope, individually signed assertion) is accepted and handed to
// the caller; whatever the SP validates next — accepted or not — the first result still carries exactly the
// assertion the IdP signed in the first message.
func VH_C01_results_isolated() {
	sp := vhOrchSP(false)
	mk := func(p string) (*vhA, string) {
		s := &vhScenario{rootSig: vhSigNone}
		s.root = vhResponseRoot(s, "samlp:Response")
		a := vhAssertionEl(p, vhSigValid)
		vAssume(a.ID != s.ID)
		s.root.AddChild(a.el)
		return a, vEncodeDoc("wire."+p, s.root, 0)
	}
	a1, enc1 := mk("c0")
	resp1, err1 := sp.ValidateEncodedResponse(enc1)
	vDebugErr("first", err1)
	if err1 != nil || resp1 == nil || len(resp1.Assertions) != 1 {
		return
	}
	_, enc2 := mk("d0")
	_, err2 := sp.ValidateEncodedResponse(enc2)
	vDebugErr("second", err2)
	vReach("second-validated", true)
	vAssert("C01,C04,C08,C17.an-accepted-result-is-not-changed-by-a-later-call", len(resp1.Assertions) == 1 && vhSameAssertion(&resp1.Assertions[0], a1))
}
