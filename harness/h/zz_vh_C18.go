//go:build verif

package saml2

import (
	"github.com/russellhaering/gosaml2/uuid"
)

// vhWindow: the 122 free bits of u are exactly the crypto-stream bytes [p, p+16).
func vhWindow(u *uuid.UUID, p int) bool {
	m := true
	for i := 0; i < 16; i++ {
		switch i {
		case 6:
			m = vAnd(m, u[6]&0x0f == vRandByte(p+6)&0x0f)
		case 8:
			m = vAnd(m, u[8]&0x3f == vRandByte(p+8)&0x3f)
		default:
			m = vAnd(m, u[i] == vRandByte(p+i))
		}
	}
	return m
}

func vhUUIDString(u *uuid.UUID) string {
	s := ""
	for i := 0; i < 16; i++ {
		if i == 4 || i == 6 || i == 8 || i == 10 {
			s += "-"
		}
		s += vHex(u[i])
	}
	return s
}

// vhC18: n consecutive UUIDs; each is version 4 / variant 10, its free bits are a window of the
// crypto/rand stream that no other UUID uses, and the canonical string is the lower-case 8-4-4-4-12
// rendering of exactly those bytes.
func vhC18(n int) {
	vRandInstall()
	for k := 0; k < n; k++ {
		p0 := vRandPos()
		u := uuid.NewV4()
		q := vRandPos()
		vAssert("C18.version-4", u[6]&0xf0 == 0x40)
		vAssert("C18.variant-10", u[8]&0xc0 == 0x80)
		if q-p0 == 16 {
			vAssert("C18.free-bits-are-the-16-bytes-just-drawn-from-crypto-rand", vhWindow(u, p0))
		} else {
			// batching implementations: some 16-aligned window of the stream drawn so far
			found := false
			for p := 0; p+16 <= q; p += 16 {
				found = vOr(found, vhWindow(u, p))
			}
			vAssert("C18.free-bits-come-from-the-crypto-rand-stream", found)
		}
		if k == 0 {
			// the rendering itself is decided for every byte pattern by VH_C18_string
			s := u.String()
			vAssert("C18.canonical-8-4-4-4-12-lowercase-hex", s == vhUUIDString(u))
		}
	}
	// rendering is injective: fixed layout (proved above) of per-byte hex pairs, and the pair is injective
	x, y := vByte("lemma.x"), vByte("lemma.y")
	vAssert("C18.hex-pair-injective", vImplies(vHex(x) == vHex(y), x == y))
	vReach("done", true)
}

func VH_C18_uuid() { vhC18(300) }

// VH_C18_string: the canonical rendering for every 16-byte pattern (all-zero groups, leading zero nibbles, ...).
func VH_C18_string() {
	var u uuid.UUID
	for i := range u {
		u[i] = vByte("u")
	}
	s := u.String()
	vReach("rendered", true)
	vAssert("C18.canonical-8-4-4-4-12-lowercase-hex", s == vhUUIDString(&u))
}
