//go:build verif

package saml2

import (
	"github.com/russellhaering/gosaml2/types"
)

// VH_C05_conditions: the time warning of VerifyAssertionConditions is exact for every clock position
// (half-open interval [NotBefore, NotOnOrAfter)); missing / unparsable bounds are rejected with the typed
// error naming them, never treated as unbounded.
func VH_C05_conditions() {
	sp := vhSP("sp")
	a := &types.Assertion{}
	if vFlag("cond.present") {
		a.Conditions = &types.Conditions{NotBefore: vTimeStr("cond.NotBefore"), NotOnOrAfter: vTimeStr("cond.NotOnOrAfter")}
	}
	w, err := sp.VerifyAssertionConditions(a)

	vReach("ok", err == nil)
	vReach("err", err != nil)
	vAssert("C05.result-xor-error", (w != nil) != (err != nil))
	if a.Conditions == nil {
		e, isME := err.(ErrMissingElement)
		vAssert("C05.missing-conditions-rejected", isME)
		if isME {
			vAssert("C05.missing-conditions-named", vAnd(e.Tag == "Conditions", e.Attribute == ""))
		}
		return
	}
	nb, noa := a.Conditions.NotBefore, a.Conditions.NotOnOrAfter
	wellFormed := vAnd(vAnd(nb != "", vParseOK(nb)), vAnd(noa != "", vParseOK(noa)))
	if err == nil {
		vAssert("C05.missing-or-unparsable-bound-never-accepted", wellFormed)
		reads := vClockReads("sp")
		vAssert("C05.sp-clock-consulted", reads >= 1)
		vAssert("C05.no-wall-clock", vWallReads() == 0)
		if reads >= 1 {
			first, last := vClockAt("sp", 0), vClockAt("sp", reads-1)
			// exact for a single reading; for several (non-decreasing) readings any of them may have been compared
			vAssert("C05.invalid-time-iff-outside-half-open-window", vAnd(
				vImplies(w.InvalidTime, vOr(first < vParseNs(nb), last >= vParseNs(noa))),
				vImplies(vNot(w.InvalidTime), vAnd(last >= vParseNs(nb), first < vParseNs(noa)))))
			vReach("warn", w.InvalidTime)
			vReach("nowarn", !w.InvalidTime)
		}
		return
	}
	vAssert("C05.wellformed-bounds-not-rejected", vNot(wellFormed))
	switch e := err.(type) {
	case ErrMissingElement:
		named := vOr(vAnd(e.Attribute == "NotBefore", nb == ""), vAnd(e.Attribute == "NotOnOrAfter", noa == ""))
		vAssert("C05.typed-error.missing-bound-named", vAnd(e.Tag == "Conditions", named))
		vReach("err.missing", true)
	case ErrParsing:
		named := vOr(vAnd(e.Tag == "NotBefore", vAnd(nb != "", vAnd(vNot(vParseOK(nb)), e.Value == nb))),
			vAnd(e.Tag == "NotOnOrAfter", vAnd(noa != "", vAnd(vNot(vParseOK(noa)), e.Value == noa))))
		vAssert("C05.typed-error.unparsable-bound-named", named)
		vReach("err.parsing", true)
	default:
		vAssert("C05.typed-error.type", false)
	}
}

// VH_C05_expiry: Validate rejects as expired exactly when the SP clock is at or after some assertion's
// SubjectConfirmationData NotOnOrAfter (1..3 assertions, otherwise well-shaped response).
func VH_C05_expiry() {
	sp := vhSP("sp")
	n := 1 + vChoice("nAssertions-1", 3)
	r := &types.Response{Version: "2.0", Destination: vString("resp.Destination"),
		Issuer: &types.Issuer{Value: vString("resp.Issuer.value")},
		Status: &types.Status{StatusCode: &types.StatusCode{Value: vString("resp.StatusCode")}}}
	for i := 0; i < n; i++ {
		p := "a" + string(rune('0'+i))
		r.Assertions = append(r.Assertions, types.Assertion{
			Issuer: &types.Issuer{Value: vString(p + ".Issuer.value")},
			Subject: &types.Subject{SubjectConfirmation: &types.SubjectConfirmation{Method: vString(p + ".SC.Method"),
				SubjectConfirmationData: &types.SubjectConfirmationData{Recipient: vString(p + ".SCD.Recipient"), NotOnOrAfter: vTimeStr(p + ".SCD.NotOnOrAfter")}}},
		})
	}
	err := sp.Validate(r)
	reads := vClockReads("sp")
	vAssert("C05.no-wall-clock", vWallReads() == 0)
	// readings are non-decreasing: acceptance needs every bound unreached at the first reading; an expiry
	// verdict must be true at the last reading at the latest
	unexpiredAtFirst, expiredAtLast := true, false
	allParse := true
	for i := 0; i < n; i++ {
		noa := r.Assertions[i].Subject.SubjectConfirmation.SubjectConfirmationData.NotOnOrAfter
		allParse = vAnd(allParse, vAnd(noa != "", vParseOK(noa)))
		if reads >= 1 {
			unexpiredAtFirst = vAnd(unexpiredAtFirst, vClockAt("sp", 0) < vParseNs(noa))
			expiredAtLast = vOr(expiredAtLast, vAnd(vParseOK(noa), vClockAt("sp", reads-1) >= vParseNs(noa)))
		}
	}
	vReach("accepted", err == nil)
	if err == nil {
		vAssert("C05.accepted-implies-sp-clock-consulted", reads >= 1)
		vAssert("C05.accepted-implies-none-expired", unexpiredAtFirst)
		vAssert("C05.accepted-implies-all-bounds-parse", allParse)
		return
	}
	if e, ok := err.(ErrInvalidValue); ok && e.Reason == "Expired" {
		vReach("expired", true)
		vAssert("C05.expired-error-implies-some-assertion-expired", expiredAtLast)
		vAssert("C05.expired-error-names-NotOnOrAfter", e.Key == "NotOnOrAfter")
	}
}

// ---- C06 ----

func vhConditions(maxR, maxA, maxP int) *types.Conditions {
	c := &types.Conditions{NotBefore: vTimeStr("cond.NotBefore"), NotOnOrAfter: vTimeStr("cond.NotOnOrAfter")}
	nr := vChoice("cond.nRestrictions", maxR+1)
	for r := 0; r < nr; r++ {
		ar := types.AudienceRestriction{}
		na := vChoice("cond.r"+string(rune('0'+r))+".nAudiences", maxA+1)
		for k := 0; k < na; k++ {
			ar.Audiences = append(ar.Audiences, types.Audience{Value: vString("cond.r" + string(rune('0'+r)) + ".a" + string(rune('0'+k)))})
		}
		c.AudienceRestrictions = append(c.AudienceRestrictions, ar)
	}
	if vFlag("cond.OneTimeUse") {
		c.OneTimeUse = &types.OneTimeUse{}
	}
	if vFlag("cond.Proxy") {
		pr := &types.ProxyRestriction{Count: int(vI64("cond.Proxy.Count"))}
		np := vChoice("cond.Proxy.nAudiences", maxP+1)
		for k := 0; k < np; k++ {
			pr.Audience = append(pr.Audience, types.Audience{Value: vString("cond.Proxy.a" + string(rune('0'+k)))})
		}
		c.ProxyRestriction = pr
	}
	return c
}

func vhC06(maxR, maxA, maxP int) {
	sp := vhSP("sp")
	a := &types.Assertion{Conditions: vhConditions(maxR, maxA, maxP)}
	c := a.Conditions
	w, err := sp.VerifyAssertionConditions(a)
	vReach("ok", err == nil)
	if err != nil {
		// rejection may only be due to the time bounds (C05)
		wellFormed := vAnd(vAnd(c.NotBefore != "", vParseOK(c.NotBefore)), vAnd(c.NotOnOrAfter != "", vParseOK(c.NotOnOrAfter)))
		vAssert("C06.conditions-content-never-causes-rejection", vNot(wellFormed))
		return
	}
	// NotInAudience ⇔ ∃ restriction: ∀ audience ≠ AudienceURI
	expected := false
	for _, ar := range c.AudienceRestrictions {
		none := true
		for _, au := range ar.Audiences {
			none = vAnd(none, au.Value != sp.AudienceURI)
		}
		expected = vOr(expected, none)
	}
	vAssert("C06.not-in-audience-iff-some-restriction-unmatched", vIff(w.NotInAudience, expected))
	vReach("notInAudience", w.NotInAudience)
	vReach("inAudience", vAnd(!w.NotInAudience, len(c.AudienceRestrictions) > 0))
	vAssert("C06.one-time-use-iff-present", w.OneTimeUse == (c.OneTimeUse != nil))
	vAssert("C06.proxy-absent-iff-absent", (w.ProxyRestriction == nil) == (c.ProxyRestriction == nil))
	if w.ProxyRestriction != nil && c.ProxyRestriction != nil {
		vReach("proxy", true)
		vAssert("C06.proxy-count", w.ProxyRestriction.Count == c.ProxyRestriction.Count)
		vAssert("C06.proxy-audience-length", len(w.ProxyRestriction.Audience) == len(c.ProxyRestriction.Audience))
		if len(w.ProxyRestriction.Audience) == len(c.ProxyRestriction.Audience) {
			same := true
			for k := range c.ProxyRestriction.Audience {
				same = vAnd(same, w.ProxyRestriction.Audience[k] == c.ProxyRestriction.Audience[k].Value)
			}
			vAssert("C06.proxy-audiences-in-order", same)
		}
	}
}

func VH_C06_conditions()      { vhC06(2, 2, 2) }
func VH_C06_conditions_deep() { vhC06(3, 3, 3) }
