//go:build verif

package saml2

import (
	"crypto/tls"

	"github.com/russellhaering/gosaml2/types"
)

// VH_C11_roundtrip: for every data-encryption algorithm the SP advertises (read from Metadata()), every key
// transport x digest identifier exported by package types, inline or detached EncryptedKey, with or
// without a matching recipient certificate: DecryptBytes of a compliant XML-Enc encryption of P returns
// exactly P (CBC: plaintext 0..47 bytes, padding length 1..16 with arbitrary filler; GCM: what Open yields).
func VH_C11_roundtrip() {
	key := vRSAKey("sp")
	spcert := vBytes("spcert")
	vAssume(len(spcert) > 0)
	cert := &tls.Certificate{Certificate: [][]byte{spcert}, PrivateKey: key}
	sp := &SAMLServiceProvider{Clock: vClock("sp"), SPKeyStore: &vhKS{key: key, cert: spcert}}
	md, merr := sp.Metadata()
	vAssert("C11.metadata-available", merr == nil && md != nil)
	if merr != nil || md == nil {
		return
	}
	ekd, _ := vhFindKeyDescriptor(md, "encryption")
	vAssert("C11.encryption-descriptor-present", ekd != nil && len(ekd.EncryptionMethods) > 0)
	if ekd == nil || len(ekd.EncryptionMethods) == 0 {
		return
	}
	alg := ekd.EncryptionMethods[vChoice("advertised.index", len(ekd.EncryptionMethods))].Algorithm

	ea := &types.EncryptedAssertion{}
	ea.EncryptionMethod.Algorithm = alg
	ek := types.EncryptedKey{}
	switch vChoice("transport", 3) {
	case 0:
		ek.EncryptionMethod.Algorithm = types.MethodRSAOAEP
	case 1:
		ek.EncryptionMethod.Algorithm = types.MethodRSAOAEP2
	case 2:
		ek.EncryptionMethod.Algorithm = types.MethodRSAv1_5
	}
	dig := ""
	switch vChoice("digest", 5) {
	case 1:
		ek.EncryptionMethod.DigestMethod = &types.DigestMethod{}
	case 2:
		dig = types.MethodSHA1
		ek.EncryptionMethod.DigestMethod = &types.DigestMethod{Algorithm: dig}
	case 3:
		dig = types.MethodSHA256
		ek.EncryptionMethod.DigestMethod = &types.DigestMethod{Algorithm: dig}
	case 4:
		dig = types.MethodSHA512
		ek.EncryptionMethod.DigestMethod = &types.DigestMethod{Algorithm: dig}
	}
	if vFlag("recipient-cert-present") {
		ek.X509Data = vB64(spcert)
	}
	// symmetric key of the size the algorithm needs
	symKey := vBytes("symkey")
	switch alg {
	case types.MethodAES128GCM, types.MethodAES128CBC:
		vAssume(len(symKey) == 16)
	case types.MethodAES192GCM:
		vAssume(len(symKey) == 24)
	case types.MethodAES256GCM, types.MethodAES256CBC:
		vAssume(len(symKey) == 32)
	default:
		vAssert("C11.advertised-algorithm-is-known", false)
		return
	}
	ek.CipherValue = vWrapKey("ek.cv", key, ek.EncryptionMethod.Algorithm, dig, symKey)
	vAssume(vB64OK(ek.CipherValue))
	vAssume(ek.CipherValue != "")
	if vFlag("ek.inline") {
		ea.EncryptedKey = ek
	} else {
		ea.DetEncryptedKey = ek
	}
	ea.CipherValue = vCipherValue("cv", alg, symKey, 64)
	vAssume(vB64OK(ea.CipherValue))
	L := vCipherLen(ea.CipherValue)

	isCBC := alg == types.MethodAES128CBC || alg == types.MethodAES256CBC
	plen := vInt("plaintext.len", 0, 47)
	if isCBC {
		pad := vInt("pad.len", 1, 16)
		vAssume((plen+pad)%16 == 0)
		vAssume(L == 16+plen+pad)
		vAssume(int(vPlainByte("cv", plen+pad-1)) == pad) // XML-Enc: last byte = number of padding bytes
	} else {
		vAssume(L == 12+plen+16)
		vAssume(vGCMTagOK("cv"))
	}
	out, err := ea.DecryptBytes(cert)
	vReach("decrypted", err == nil)
	vAssert("C11,C08.compliant-encryption-decrypts", err == nil)
	if err != nil {
		return
	}
	vAssertModel("C11.private-key-operation-performed-once", vRSADecryptCalls() == 1)
	vAssert("C11,C08.plaintext-length-exact", len(out) == plen)
	if isCBC {
		j := vInt("probe.index", 0, 46)
		if j < len(out) {
			vAssert("C11,C08.plaintext-bytes-exact", vImplies(j < plen, vByteAt(out, j) == vPlainByte("cv", j)))
		}
	} else {
		vAssert("C11.gcm-plaintext-is-what-open-returned", vIsGCMOpened(out))
	}
}
