//go:build verif

package saml2

import "github.com/russellhaering/gosaml2/types"

// VH_C08_values: the accessor helpers against their specification, for maps of 0..3 entries with 0..3
// values each (symbolic names and values), an arbitrary lookup key, and the nil map.
func VH_C08_values() {
	var vals Values
	n := vChoice("nEntries", 5) // 4 = nil map
	var names []string
	var lists [][]string
	if n < 4 {
		vals = Values{}
		for i := 0; i < n; i++ {
			p := "e" + string(rune('0'+i))
			name := vString(p + ".name")
			for _, prev := range names {
				vAssume(prev != name) // map keys are distinct by construction
			}
			nv := vChoice(p+".nValues", 4)
			var vs []string
			at := types.Attribute{Name: name}
			for j := 0; j < nv; j++ {
				v := vString(p + ".v" + string(rune('0'+j)))
				vs = append(vs, v)
				at.Values = append(at.Values, types.AttributeValue{Value: v})
			}
			vals[name] = at
			names = append(names, name)
			lists = append(lists, vs)
		}
	}
	k := vString("key")
	got := vals.Get(k)
	size := vals.GetSize(k)
	all := vals.GetAll(k)
	// specification
	found := -1
	for i, nm := range names {
		if nm == k {
			found = i
		}
	}
	if found < 0 {
		vReach("absent", true)
		vAssert("C08.absent-or-nil-gives-empty-results", got == "" && size == 0 && len(all) == 0)
		return
	}
	vReach("present", true)
	want := lists[found]
	vAssert("C08.size-is-value-count", size == len(want))
	vAssert("C08.all-values-length", len(all) == len(want))
	if len(want) == 0 {
		vAssert("C08.first-value-empty-when-no-values", got == "")
		return
	}
	vAssert("C08.first-value", got == want[0])
	if len(all) == len(want) {
		same := true
		for j := range want {
			same = vAnd(same, all[j] == want[j])
		}
		vAssert("C08.all-values-in-order", same)
	}
}
