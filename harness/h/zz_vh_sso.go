//go:build verif

package saml2

import (
	"github.com/beevik/etree"
	"github.com/russellhaering/gosaml2/types"
	dsig "github.com/russellhaering/goxmldsig"
)

// ---- SSO scenario builder (DESIGN A.2): real etree elements, concrete names, symbolic leaf strings;
// abstract facts as reserved unprefixed attributes vx-sig / vx-name (ignored by xmlm and the concretiser).

const (
	vhSigNone    = 0
	vhSigValid   = 1
	vhSigInvalid = 2
)

var vhSigNames = []string{"none", "valid", "invalid"}

// vhA: the leaf values of one assertion element of the scenario.
type vhA struct {
	el           *etree.Element
	name         string
	sig          int
	ID           string
	Issuer       string
	NameID       string
	Method       string
	Recipient    string
	NotOnOrAfter string
	CondNB       string
	CondNOA      string
	Audience     string
	AttrName     string
	AttrValue    string
	SessionIndex string
}

func vhText2(parent *etree.Element, tag, text string) *etree.Element {
	e := parent.CreateElement(tag)
	e.CreateText(text)
	return e
}

// vhSplitText: when set, the NameID and the attribute value of the assertions built next are written as
// text, comment, CDATA-free text (two character-data tokens around a comment) — the comment-injection layout.
var vhSplitText bool

func vhAssertionEl(p string, sig int) *vhA {
	a := &vhA{name: p, sig: sig,
		ID: vIDString(p + ".ID"), Issuer: vString(p + ".Issuer"), NameID: vString(p + ".NameID"), Method: vString(p + ".Method"),
		Recipient: vString(p + ".Recipient"), NotOnOrAfter: vTimeStr(p + ".NotOnOrAfter"), CondNB: vTimeStr(p + ".Cond.NotBefore"),
		CondNOA: vTimeStr(p + ".Cond.NotOnOrAfter"), Audience: vString(p + ".Audience"), AttrName: vString(p + ".Attr.Name"),
		AttrValue: vString(p + ".Attr.Value"), SessionIndex: vString(p + ".SessionIndex")}
	e := etree.NewElement("saml:Assertion")
	e.CreateAttr("xmlns:saml", "urn:oasis:names:tc:SAML:2.0:assertion")
	e.CreateAttr("ID", a.ID)
	e.CreateAttr("Version", "2.0")
	e.CreateAttr("vx-sig", vhSigNames[sig])
	e.CreateAttr("vx-name", p)
	vhText2(e, "saml:Issuer", a.Issuer)
	if sig != vhSigNone {
		s := e.CreateElement("ds:Signature")
		s.CreateAttr("xmlns:ds", "http://www.w3.org/2000/09/xmldsig#")
	}
	subj := e.CreateElement("saml:Subject")
	if vhSplitText && vFlag(p+".NameID.split-by-comment") {
		// NameID = part1 <!-- comment --> part2 : the value the IdP signed is part1+part2
		p1, p2 := vString(p+".NameID.part1"), vString(p+".NameID.part2")
		a.NameID = p1 + p2
		nid := subj.CreateElement("saml:NameID")
		nid.CreateText(p1)
		nid.CreateComment(vString(p + ".NameID.comment"))
		nid.CreateText(p2)
	} else if vhSplitText && vFlag(p+".NameID.cdata") {
		// the IdP serialised the value as a CDATA section (same signed value: canonicalisation turns it into text)
		if vFlag(p + ".NameID.cdata-empty") {
			// an empty CDATA section: see known finding D11 (xml-roundtrip-validator rejects "<![CDATA[]]>")
			a.NameID = ""
			vhEmptyCData = true
			subj.CreateElement("saml:NameID").CreateCData("")
		} else {
			vAssume(a.NameID != "")
			subj.CreateElement("saml:NameID").CreateCData(a.NameID)
		}
	} else {
		vhText2(subj, "saml:NameID", a.NameID)
	}
	sc := subj.CreateElement("saml:SubjectConfirmation")
	sc.CreateAttr("Method", a.Method)
	scd := sc.CreateElement("saml:SubjectConfirmationData")
	scd.CreateAttr("Recipient", a.Recipient)
	scd.CreateAttr("NotOnOrAfter", a.NotOnOrAfter)
	cond := e.CreateElement("saml:Conditions")
	cond.CreateAttr("NotBefore", a.CondNB)
	cond.CreateAttr("NotOnOrAfter", a.CondNOA)
	ar := cond.CreateElement("saml:AudienceRestriction")
	vhText2(ar, "saml:Audience", a.Audience)
	as := e.CreateElement("saml:AttributeStatement")
	at := as.CreateElement("saml:Attribute")
	at.CreateAttr("Name", a.AttrName)
	vhText2(at, "saml:AttributeValue", a.AttrValue)
	au := e.CreateElement("saml:AuthnStatement")
	au.CreateAttr("SessionIndex", a.SessionIndex)
	// attacker-supplied junk named after the library's trust flag: must never be decoded into it
	vhText2(e, "saml:SignatureValidated", "true")
	a.el = e
	return a
}

// vhEncryptedEl wraps inner (an element, or nil for bytes that do not parse) as saml:EncryptedAssertion
// encrypted to the SP key (AES-128-GCM, RSA-OAEP, key inline) — anyone holding the SP certificate can do it.
func vhEncryptedEl(p string, inner *etree.Element) *etree.Element {
	return vhEncryptedElZ(p, inner, false)
}

// vhEncLayouts: EncryptedAssertion elements vary their key conveyance (EncryptedKey inside EncryptedData/KeyInfo or
// detached next to EncryptedData; DigestMethod absent or SHA-256) — set by the harness that wants it.
var vhEncLayouts bool

// vhEmptyCData: the scenario contains an empty CDATA section (set by vhAssertionEl, read by vhGenuineL)
var vhEmptyCData bool

// vhInheritPrefix: EncryptedAssertion elements rely on the saml: prefix declared on the Response root instead of
// re-declaring it (set only for unsigned Responses: a signed one is re-parsed from canonical bytes, which re-declare it)
var vhInheritPrefix bool

func vhEncryptedElZ(p string, inner *etree.Element, compressed bool) *etree.Element {
	symKey := vBytes(p + ".symkey")
	vAssume(len(symKey) == 16)
	detached, digest := false, ""
	if vhEncLayouts {
		detached = vFlag(p + ".key-detached")
		if vFlag(p + ".digest-sha256") {
			digest = types.MethodSHA256
		}
	}
	ea := etree.NewElement("saml:EncryptedAssertion")
	if !vhInheritPrefix {
		ea.CreateAttr("xmlns:saml", "urn:oasis:names:tc:SAML:2.0:assertion")
	}
	ea.CreateAttr("vx-name", p)
	ed := ea.CreateElement("xenc:EncryptedData")
	ed.CreateAttr("xmlns:xenc", "http://www.w3.org/2001/04/xmlenc#")
	em := ed.CreateElement("xenc:EncryptionMethod")
	em.CreateAttr("Algorithm", types.MethodAES128GCM)
	ki := ed.CreateElement("ds:KeyInfo")
	ki.CreateAttr("xmlns:ds", "http://www.w3.org/2000/09/xmldsig#")
	holder := ki
	if detached {
		holder = ea
	}
	cd := ed.CreateElement("xenc:CipherData")
	vhText2(cd, "xenc:CipherValue", vEncryptTree(p+".cv", inner, symKey, compressed))
	ek := holder.CreateElement("xenc:EncryptedKey")
	if detached {
		ek.CreateAttr("xmlns:xenc", "http://www.w3.org/2001/04/xmlenc#")
	}
	ekm := ek.CreateElement("xenc:EncryptionMethod")
	ekm.CreateAttr("Algorithm", types.MethodRSAOAEP)
	if digest != "" {
		dm := ekm.CreateElement("ds:DigestMethod")
		dm.CreateAttr("xmlns:ds", "http://www.w3.org/2000/09/xmldsig#")
		dm.CreateAttr("Algorithm", digest)
	}
	ekcd := ek.CreateElement("xenc:CipherData")
	wrapped := vWrapKey(p+".ek", vRSAKey("sp"), types.MethodRSAOAEP, digest, symKey)
	vAssume(vB64OK(wrapped))
	vAssume(wrapped != "")
	vhText2(ekcd, "xenc:CipherValue", wrapped)
	return ea
}

// vhScenario: what the attacker / IdP sends.
type vhScenario struct {
	root                                                       *etree.Element
	rootSig                                                    int
	rootKind                                                   int // 0 samlp:Response, 1 samlp:LogoutResponse, 2 samlp:LogoutRequest, 3 saml:EncryptedAssertion root
	ID, InResponseTo, Destination, Version, Issuer, StatusCode string
	hasIssuer                                                  bool
	issuerOptional                                             bool // the scenario may omit the (schema-optional) Response Issuer
	nonASCIIIssuer                                             bool // the Issuer value ends in a non-ASCII character
	attrsOptional                                              bool // the scenario may omit the (schema-optional) InResponseTo attribute
	foreignIssuer                                              bool // an extension child named Issuer in a foreign namespace follows the Issuer
	// expected: the assertions that are legitimately verifiable, in document order as the library must return them
	// (direct children of the root; decrypted ones take the place the library gives them)
	direct    []*vhA // direct-child plaintext assertions (document order)
	enc       []*vhA // assertions carried inside direct-child EncryptedAssertion elements (document order)
	encBad    int    // encrypted children whose plaintext is not an assertion / does not parse
	hiddenEnc int    // encrypted assertions that are NOT direct children of the Response
	hidden    []*vhA // assertions that are NOT direct children (wrapped / nested): must never be honoured
	order     []*vhA // all honourable candidates in document order (plain and encrypted interleaved)
	orderEnc  []bool
}

func vhResponseRoot(s *vhScenario, tag string) *etree.Element {
	r := etree.NewElement(tag)
	r.CreateAttr("xmlns:samlp", "urn:oasis:names:tc:SAML:2.0:protocol")
	r.CreateAttr("xmlns:saml", "urn:oasis:names:tc:SAML:2.0:assertion")
	s.ID, s.InResponseTo, s.Destination, s.Version = vIDString("resp.ID"), vString("resp.InResponseTo"), vString("resp.Destination"), vString("resp.Version")
	r.CreateAttr("ID", s.ID)
	if s.attrsOptional && !vFlag("resp.InResponseTo.present") {
		s.InResponseTo = ""
	} else {
		r.CreateAttr("InResponseTo", s.InResponseTo)
	}
	r.CreateAttr("Destination", s.Destination)
	r.CreateAttr("Version", s.Version)
	r.CreateAttr("vx-sig", vhSigNames[s.rootSig])
	r.CreateAttr("vx-name", "root")
	s.hasIssuer = true
	if s.issuerOptional && !vFlag("resp.Issuer.present") {
		s.hasIssuer = false
	}
	if s.hasIssuer {
		s.Issuer = vString("resp.Issuer")
		if s.nonASCIIIssuer {
			s.Issuer += "\u00e9"
		}
		vhText2(r, "saml:Issuer", s.Issuer)
	}
	if s.foreignIssuer {
		fi := r.CreateElement("meta:Issuer")
		fi.CreateAttr("xmlns:meta", "urn:example:metadata-extension")
		fi.CreateText(vString("resp.ForeignIssuer"))
	}
	if s.rootSig != vhSigNone {
		holder := r
		if vFlag("root.sig.nested") {
			// the message's own enveloped signature sits inside an extension element instead of directly under the root
			holder = r.CreateElement("samlp:Extensions")
			holder.CreateAttr("vx-sigholder", "1")
		}
		sg := holder.CreateElement("ds:Signature")
		sg.CreateAttr("xmlns:ds", "http://www.w3.org/2000/09/xmldsig#")
	}
	vhText2(r, "samlp:SignatureValidated", "true")
	st := r.CreateElement("samlp:Status")
	sc := st.CreateElement("samlp:StatusCode")
	s.StatusCode = vString("resp.StatusCode")
	sc.CreateAttr("Value", s.StatusCode)
	return r
}

// child kinds
const (
	vhKidAssertion = iota // plaintext assertion, own signature none/valid/invalid
	vhKidEncrypted        // EncryptedAssertion whose plaintext is an assertion (none/valid/invalid)
	vhKidEncBad           // EncryptedAssertion whose plaintext is another element or does not parse
	vhKidWrapped          // attacker wrapper element containing a genuine validly signed assertion
	vhKidNested           // attacker assertion (unsigned) with a genuine validly signed assertion nested inside
	vhKidOther            // unrelated element
	vhKidKinds
)

func vhAddChild(s *vhScenario, i int, kinds int) {
	p := "c" + string(rune('0'+i))
	switch vChoice(p+".kind", kinds) {
	case vhKidAssertion:
		a := vhAssertionEl(p, vChoice(p+".sig", 3))
		s.root.AddChild(a.el)
		s.direct = append(s.direct, a)
		s.order, s.orderEnc = append(s.order, a), append(s.orderEnc, false)
	case vhKidEncrypted:
		a := vhAssertionEl(p, vChoice(p+".sig", 3))
		s.root.AddChild(vhEncryptedEl(p+".enc", a.el))
		s.enc = append(s.enc, a)
		s.order, s.orderEnc = append(s.order, a), append(s.orderEnc, true)
	case vhKidEncBad:
		var inner *etree.Element
		if vFlag(p + ".plaintext.parses") {
			inner = etree.NewElement("saml:Advice")
			inner.CreateAttr("xmlns:saml", "urn:oasis:names:tc:SAML:2.0:assertion")
		}
		s.root.AddChild(vhEncryptedEl(p+".enc", inner))
		s.encBad++
	case vhKidWrapped:
		a := vhAssertionEl(p, vhSigValid)
		w := s.root.CreateElement("samlp:Extensions")
		if vFlag(p + ".wrapped.encrypted") {
			w.AddChild(vhEncryptedEl(p+".enc", a.el))
			s.hiddenEnc++
		} else {
			w.AddChild(a.el)
		}
		s.hidden = append(s.hidden, a)
	case vhKidNested:
		outer := vhAssertionEl(p+".outer", vhSigNone)
		inner := vhAssertionEl(p, vhSigValid)
		outer.el.AddChild(inner.el)
		s.root.AddChild(outer.el)
		s.direct = append(s.direct, outer)
		s.order, s.orderEnc = append(s.order, outer), append(s.orderEnc, false)
		s.hidden = append(s.hidden, inner)
	case vhKidOther:
		s.root.CreateElement("samlp:Extensions")
	}
}

func vhSSOScenario(maxKids, kinds int) *vhScenario {
	s := &vhScenario{rootSig: vChoice("root.sig", 3)}
	s.root = vhResponseRoot(s, "samlp:Response")
	n := vChoice("nChildren", maxKids+1)
	for i := 0; i < n; i++ {
		vhAddChild(s, i, kinds)
	}
	// distinct elements carry distinct IDs (ID collisions are resolved inside goxmldsig's reference lookup —
	// dependency behaviour that is not part of the dsig.Validate contract used here)
	ids := []string{s.ID}
	for _, a := range s.order {
		ids = append(ids, a.ID)
	}
	for _, a := range s.hidden {
		ids = append(ids, a.ID)
	}
	for i := range ids {
		for j := i + 1; j < len(ids); j++ {
			vAssume(ids[i] != ids[j])
		}
	}
	return s
}

// vhOrchClock: SP clock between 2001 and 2099 (the replay certificates are valid 2000..2100).
func vhOrchClock() *dsig.Clock {
	vClockBetween("sp", 978307200000000000, 4070908800000000000)
	return vClock("sp")
}

func vhOrchSP(skip bool) *SAMLServiceProvider {
	sp := &SAMLServiceProvider{
		AssertionConsumerServiceURL: vString("acs"),
		IdentityProviderIssuer:      vString("idpIssuer"),
		AudienceURI:                 vString("aud"),
		IDPCertificateStore:         vIDPStore(),
		Clock:                       vhOrchClock(),
		SkipSignatureValidation:     skip,
		SPKeyStore:                  dsig.TLSCertKeyStore(vhTLSCert()),
	}
	vhNoiseConfig(sp)
	return sp
}

// vhNoiseConfig: configuration that no incoming-message decision may depend on (endpoints and bindings of the
// IdP, request-building options) gets arbitrary values, so a check that starts to consult one of them is seen.
func vhNoiseConfig(sp *SAMLServiceProvider) {
	sp.IdentityProviderSSOURL = vString("cfg.idpSSOURL")
	sp.IdentityProviderSSOBinding = vString("cfg.idpSSOBinding")
	sp.IdentityProviderSLOURL = vString("cfg.idpSLOURL")
	sp.IdentityProviderSLOBinding = vString("cfg.idpSLOBinding")
	sp.ServiceProviderIssuer = vString("cfg.spIssuer")
	sp.NameIdFormat = vString("cfg.nameIdFormat")
	sp.SignAuthnRequestsAlgorithm = vString("cfg.signAlgorithm")
	sp.SignAuthnRequests = vBool("cfg.signAuthnRequests")
	sp.ForceAuthn = vBool("cfg.forceAuthn")
	sp.IsPassive = vBool("cfg.isPassive")
}

// vhSameAssertion: field-for-field equality between a returned assertion and a scenario assertion.
func vhSameAssertion(r *types.Assertion, a *vhA) bool {
	ok := r.ID == a.ID
	if r.Issuer == nil || r.Subject == nil || r.Subject.NameID == nil || r.Subject.SubjectConfirmation == nil ||
		r.Subject.SubjectConfirmation.SubjectConfirmationData == nil || r.Conditions == nil || len(r.Conditions.AudienceRestrictions) != 1 ||
		len(r.Conditions.AudienceRestrictions[0].Audiences) != 1 || r.AttributeStatement == nil || len(r.AttributeStatement.Attributes) != 1 ||
		len(r.AttributeStatement.Attributes[0].Values) != 1 || r.AuthnStatement == nil {
		return false
	}
	ok = vAnd(ok, r.Issuer.Value == a.Issuer)
	ok = vAnd(ok, r.Subject.NameID.Value == a.NameID)
	sc := r.Subject.SubjectConfirmation
	ok = vAnd(ok, sc.Method == a.Method)
	ok = vAnd(ok, sc.SubjectConfirmationData.Recipient == a.Recipient)
	ok = vAnd(ok, sc.SubjectConfirmationData.NotOnOrAfter == a.NotOnOrAfter)
	ok = vAnd(ok, vAnd(r.Conditions.NotBefore == a.CondNB, r.Conditions.NotOnOrAfter == a.CondNOA))
	ok = vAnd(ok, r.Conditions.AudienceRestrictions[0].Audiences[0].Value == a.Audience)
	at := r.AttributeStatement.Attributes[0]
	ok = vAnd(ok, vAnd(at.Name == a.AttrName, at.Values[0].Value == a.AttrValue))
	ok = vAnd(ok, r.AuthnStatement.SessionIndex == a.SessionIndex)
	return ok
}

func vhSameInOrder(got []types.Assertion, exp []*vhA) bool {
	ok := true
	for i := range exp {
		ok = vAnd(ok, vhSameAssertion(&got[i], exp[i]))
	}
	return ok
}

// vhSamePermutation: got is a permutation of exp (field-for-field), for up to 3 elements.
func vhSamePermutation(got []types.Assertion, exp []*vhA) bool {
	n := len(exp)
	eq := func(i, j int) bool { return vhSameAssertion(&got[i], exp[j]) }
	switch n {
	case 0:
		return true
	case 1:
		return eq(0, 0)
	case 2:
		return vOr(vAnd(eq(0, 0), eq(1, 1)), vAnd(eq(0, 1), eq(1, 0)))
	case 3:
		r := false
		perms := [][3]int{{0, 1, 2}, {0, 2, 1}, {1, 0, 2}, {1, 2, 0}, {2, 0, 1}, {2, 1, 0}}
		for _, p := range perms {
			r = vOr(r, vAnd(eq(0, p[0]), vAnd(eq(1, p[1]), eq(2, p[2]))))
		}
		return r
	}
	return vhSameInOrder(got, exp)
}

// vhExpected: the assertions the library may return, in the order it must return them.
//
//	root verified    : every direct-child assertion (plain or decrypted) of the verified root
//	root not verified: exactly the individually verified direct children
//
// Plaintext assertions keep document order; a decrypted assertion takes the position the library's
// replacement gives it — DESIGN C11(4) demands the original position.
func vhExpected(s *vhScenario, rootVerified bool) []*vhA {
	var out []*vhA
	for _, a := range s.order {
		if rootVerified || a.sig == vhSigValid {
			out = append(out, a)
		}
	}
	return out
}

// VH_C01_sso: whatever is accepted was signed (C01), flags are honest (C04), bad signatures are fatal (C02),
// encryption confers no trust (C07), every decode path validates (C03), result xor error (C09).
func vhSSO(maxKids, kinds int, modes int) {
	sp := vhOrchSP(false)
	s := vhSSOScenario(maxKids, kinds)
	mode := vChoice("wire.mode", modes)
	enc := vEncodeDoc("wire", s.root, mode)

	resp, err := sp.ValidateEncodedResponse(enc)
	vDebugErr("ValidateEncodedResponse", err)

	vAssert("C09.result-xor-error", (resp != nil) != (err != nil))
	vAssert("C02,C05.only-the-sp-clock-is-consulted", vWallReads() == 0)
	rejectedCerts := vCertRejections()
	if err != nil {
		vReach("rejected", true)
		return
	}
	vReach("accepted", true)
	vAssert("C01.raw-bytes-screened-by-roundtrip-validator", vScreenedEqualsParsed())
	rootVerified := s.rootSig == vhSigValid
	// C02: a present-but-bad root signature is fatal; a valid signature whose certificate the store/clock rejects too
	vAssert("C02.invalid-root-signature-is-fatal", s.rootSig != vhSigInvalid)
	vAssert("C02.untrusted-or-expired-certificate-is-fatal", rejectedCerts == 0)
	// C04 flags
	vAssert("C04.response-flag-iff-root-verified", resp.SignatureValidated == rootVerified)
	// C01 (b): exact list
	exp := vhExpected(s, rootVerified)
	vAssert("C01,C07.returned-assertions-are-exactly-the-verified-direct-children", len(resp.Assertions) == len(exp))
	if len(resp.Assertions) == len(exp) {
		vAssert("C01,C03,C04,C07,C08.every-returned-assertion-field-for-field-equal-to-a-signed-one", vhSamePermutation(resp.Assertions, exp))
		vAssert("C11.returned-order-is-document-order(encrypted-or-not)", vhSameInOrder(resp.Assertions, exp))
		for i := range exp {
			if !rootVerified {
				vAssert("C04.assertion-flag-set-when-root-unverified", resp.Assertions[i].SignatureValidated)
			} else {
				vAssert("C04.assertion-flag-not-overstated", !resp.Assertions[i].SignatureValidated)
			}
		}
	}
	// a bad assertion signature in an unsigned response is fatal (C02), as is an unsigned assertion (C01)
	if !rootVerified {
		for _, a := range s.order {
			vAssert("C01,C02,C07.unverifiable-assertion-in-unsigned-response-is-fatal", a.sig == vhSigValid)
		}
	}
	vAssert("C01.at-least-one-assertion", len(resp.Assertions) >= 1)
	vAssert("C07.encrypted-assertion-not-directly-under-the-response-is-rejected", s.hiddenEnc == 0)
	// root fields come from the (verified) root
	vAssert("C04,C08.root-fields-faithful", vAnd(vAnd(resp.ID == s.ID, resp.InResponseTo == s.InResponseTo), vAnd(resp.Destination == s.Destination, resp.Version == s.Version)))
	vAssert("C04,C08.root-issuer-faithful", resp.Issuer != nil && resp.Issuer.Value == s.Issuer)
	// C03: profile checks hold on what is returned
	vAssert("C03.accepted-response-passed-validate", vAnd(vAnd(resp.Version == "2.0", vOr(resp.Destination == "", resp.Destination == sp.AssertionConsumerServiceURL)),
		resp.Status != nil && resp.Status.StatusCode != nil && resp.Status.StatusCode.Value == "urn:oasis:names:tc:SAML:2.0:status:Success"))
	for i := range resp.Assertions {
		a := &resp.Assertions[i]
		if a.Subject != nil && a.Subject.SubjectConfirmation != nil && a.Subject.SubjectConfirmation.SubjectConfirmationData != nil {
			vAssert("C03.every-returned-assertion-is-bearer-for-this-acs", vAnd(a.Subject.SubjectConfirmation.Method == "urn:oasis:names:tc:SAML:2.0:cm:bearer",
				a.Subject.SubjectConfirmation.SubjectConfirmationData.Recipient == sp.AssertionConsumerServiceURL))
		} else {
			vAssert("C03.every-returned-assertion-has-subject-confirmation", false)
		}
	}
}

func VH_C01_sso()      { vhSSO(2, vhKidKinds, 1) } // quick: 0..2 children, raw presentation
func VH_C01_sso_wire() { vhSSO(1, vhKidKinds, 2) } // quick: 0..1 child, raw and DEFLATE presentation
func VH_C01_sso_full() { vhSSO(2, vhKidKinds, 2) } // thorough: 0..2 children, both presentations
func VH_C01_sso_deep() { vhSSO(3, vhKidKinds, 1) }

// VH_C02_store_rollover: a multi-step history on one long-lived SP. A genuine root-signed Response is
// validated, then the configured certificate store is replaced by one that no longer holds the IdP
// certificate (roll-over / revocation) and the clock object is replaced too; the same kind of message must
// now be rejected, and every signature check must use the store and clock configured at that moment.
func VH_C02_store_rollover() {
	sp := vhOrchSP(false)
	s1 := &vhScenario{rootSig: vhSigValid}
	s1.root = vhResponseRoot(s1, "samlp:Response")
	a1 := vhAssertionEl("c0", vChoice("c0.sig", 2))
	s1.root.AddChild(a1.el)
	vAssume(a1.ID != s1.ID)
	enc := vEncodeDoc("wire", s1.root, 0)
	_, err1 := sp.ValidateEncodedResponse(enc)
	vDebugErr("first", err1)
	k := vValidateCalls()
	// reconfigure
	sp.IDPCertificateStore = vEmptyStore()
	kind := vChoice("second.entry", 3)
	var err2 error
	switch kind {
	case 0:
		_, err2 = sp.ValidateEncodedResponse(enc)
	case 1:
		lr := vhLogoutRoot("samlp:LogoutRequest", vhSigValid, "lr")
		_, err2 = sp.ValidateEncodedLogoutRequestPOST(vEncodeDoc("wire2", lr.root, 0))
	case 2:
		lr := vhLogoutRoot("samlp:LogoutResponse", vhSigValid, "lr")
		_, err2 = sp.ValidateEncodedLogoutResponsePOST(vEncodeDoc("wire2", lr.root, 0))
	}
	vDebugErr("second", err2)
	vReach("first-accepted", err1 == nil)
	vAssert("C02,C01,C10.every-signature-check-uses-the-currently-configured-store-and-clock", vValidateCtxSince(k, sp))
	vAssert("C02,C01,C10.signature-by-a-certificate-no-longer-in-the-store-is-rejected", err2 != nil)
}

// VH_C08_retrieve: RetrieveAssertionInfo end to end (signature checking on or off): the summary is taken from
// the first verified assertion (C01e, C08), the flag mirrors the Response (C04), warnings mirror its
// conditions at the SP clock (C05, C06); a Response without any plaintext assertion is rejected, never a panic (C03, C09).
func vhRetrieve(maxKids int, deep bool) {
	skip := vFlag("skipSignatureValidation")
	sp := vhOrchSP(skip)
	if deep {
		sp.AllowMissingAttributes = vFlag("allowMissingAttributes")
	}
	if !deep && vFlag("earlier-rejected-response") { // (quick harness only: the deep one spends its paths on message shapes)
		// the process has just turned down another response — one whose conditions carried OneTimeUse and a
		// ProxyRestriction, rejected late (no AttributeStatement): nothing of it may show in the next summary
		// (built from the SP's own configuration values and constants so that it takes one path to the late rejection)
		esig := vhSigValid
		if skip {
			esig = vhSigNone
		}
		er := etree.NewElement("samlp:Response")
		er.CreateAttr("xmlns:samlp", "urn:oasis:names:tc:SAML:2.0:protocol")
		er.CreateAttr("xmlns:saml", "urn:oasis:names:tc:SAML:2.0:assertion")
		er.CreateAttr("ID", "_earlier-response")
		er.CreateAttr("Version", "2.0")
		er.CreateAttr("vx-sig", vhSigNames[esig])
		er.CreateAttr("vx-name", "earlier")
		vhText2(er, "saml:Issuer", sp.IdentityProviderIssuer)
		if esig != vhSigNone {
			er.CreateElement("ds:Signature").CreateAttr("xmlns:ds", "http://www.w3.org/2000/09/xmldsig#")
		}
		er.CreateElement("samlp:Status").CreateElement("samlp:StatusCode").CreateAttr("Value", "urn:oasis:names:tc:SAML:2.0:status:Success")
		ea := er.CreateElement("saml:Assertion")
		ea.CreateAttr("ID", "_earlier-assertion")
		ea.CreateAttr("Version", "2.0")
		vhText2(ea, "saml:Issuer", sp.IdentityProviderIssuer)
		esub := ea.CreateElement("saml:Subject")
		vhText2(esub, "saml:NameID", "earlier@example.com")
		esc := esub.CreateElement("saml:SubjectConfirmation")
		esc.CreateAttr("Method", "urn:oasis:names:tc:SAML:2.0:cm:bearer")
		escd := esc.CreateElement("saml:SubjectConfirmationData")
		escd.CreateAttr("Recipient", sp.AssertionConsumerServiceURL)
		escd.CreateAttr("NotOnOrAfter", "2200-01-01T00:00:00Z")
		econd := ea.CreateElement("saml:Conditions")
		econd.CreateAttr("NotBefore", "1990-01-01T00:00:00Z")
		econd.CreateAttr("NotOnOrAfter", "2200-01-01T00:00:00Z")
		econd.CreateElement("saml:OneTimeUse")
		epr := econd.CreateElement("saml:ProxyRestriction")
		epr.CreateAttr("Count", "2")
		vhText2(epr, "saml:Audience", "urn:earlier:proxy")
		_, eerr := sp.RetrieveAssertionInfo(vEncodeDoc("wire0", er, 0))
		vDebugErr("earlier", eerr)
	}
	s := vhSSOScenario(maxKids, 3) // assertions, encrypted assertions, encrypted junk
	enc := vEncodeDoc("wire", s.root, 0)

	info, err := sp.RetrieveAssertionInfo(enc)
	vDebugErr("RetrieveAssertionInfo", err)
	vAssert("C09.result-xor-error", (info != nil) != (err != nil))
	if err != nil {
		vReach("rejected", true)
		return
	}
	vReach("accepted", true)
	rootVerified := !skip && s.rootSig == vhSigValid
	var exp []*vhA
	if skip {
		// nothing is decrypted when signature checking is off: only plaintext assertions exist
		exp = s.direct
	} else {
		exp = vhExpected(s, rootVerified)
	}
	vAssert("C01,C03,C09.accepted-response-has-an-assertion", len(exp) >= 1 && len(info.Assertions) == len(exp))
	if len(exp) == 0 || len(info.Assertions) != len(exp) {
		return
	}
	vAssert("C04.summary-flag-mirrors-response", info.ResponseSignatureValidated == rootVerified)
	vAssert("C01,C04,C08.assertion-list-is-the-verified-one", vhSameInOrder(info.Assertions, exp))
	first := exp[0]
	vAssert("C01,C04,C08.nameid-of-first-verified-assertion", info.NameID == first.NameID)
	vAssert("C08.session-index", info.SessionIndex == first.SessionIndex)
	at, have := info.Values[first.AttrName]
	vAssert("C08.attribute-keyed-by-name", have && len(info.Values) == 1)
	if have {
		vAssert("C08.attribute-values-in-order", vAnd(len(at.Values) == 1 && at.Name == first.AttrName, at.Values[0].Value == first.AttrValue))
	}
	w := info.WarningInfo
	vAssert("C05,C06.warnings-present", w != nil)
	if w == nil {
		return
	}
	reads := vClockReads("sp")
	if reads >= 1 {
		now := vClockAt("sp", reads-1)
		vAssert("C05.time-warning-iff-outside-half-open-window", vIff(w.InvalidTime, vOr(now < vParseNs(first.CondNB), now >= vParseNs(first.CondNOA))))
	}
	vAssert("C06.audience-warning-iff-no-match", vIff(w.NotInAudience, first.Audience != sp.AudienceURI))
	vAssert("C06.no-one-time-use-no-proxy", !w.OneTimeUse && w.ProxyRestriction == nil)
}

func VH_C08_retrieve()      { vhRetrieve(1, false) }
func VH_C08_retrieve_deep() { vhRetrieve(2, true) }

// VH_C12_routing: every decoding stage inflates through the configured limit (the message itself and the
// plaintext of an EncryptedAssertion), the unverified pre-decoders through the fixed 5 MiB one.
func VH_C12_routing() {
	sp := vhOrchSP(false)
	limit := vI64("limit")
	vAssume(vAnd(limit >= 0, limit <= 1<<27))
	sp.MaximumDecompressedBodySize = limit
	eff := vIteI(limit == 0, 5*1024*1024, limit)
	s := &vhScenario{rootSig: vChoice("root.sig", 2), issuerOptional: true, attrsOptional: true}
	s.root = vhResponseRoot(s, "samlp:Response")
	a := vhAssertionEl("c0", vhSigValid)
	vAssume(a.ID != s.ID)
	encChild := vFlag("c0.encrypted")
	if encChild {
		s.root.AddChild(vhEncryptedElZ("c0.enc", a.el, vFlag("c0.plaintext.compressed")))
	} else {
		s.root.AddChild(a.el)
	}
	mode := vChoice("wire.mode", 2)
	enc := vEncodeDoc("wire", s.root, mode)
	entry := vChoice("entry", 2)
	vMemMark()
	switch entry {
	case 0:
		_, err := sp.ValidateEncodedResponse(enc)
		vDebugErr("validate", err)
		vReach("validated", err == nil)
		vAssert("C12.every-inflation-within-8x-the-configured-limit", vOr(eff > 1<<23, vMaterialised() <= 8*(eff+1)+(1<<20)))
		vAssertModel("C12.every-inflation-bounded-by-the-configured-limit", vMaterialised()-1 <= eff)
		if err == nil && mode == 1 {
			vAssert("C12.accepted-compressed-message-fits-the-configured-limit", vWireInflatedLen("wire") <= eff)
		}
	case 1:
		pre, err := DecodeUnverifiedBaseResponse(enc)
		vDebugErr("predecode", err)
		vReach("predecoded", err == nil)
		vAssertModel("C12.pre-decoder-inflation-bounded-by-5MiB", vMaterialised()-1 <= 5*1024*1024)
		if err == nil && mode == 1 {
			vAssert("C12.pre-decoder-accepts-compressed-only-within-5MiB", vWireInflatedLen("wire") <= 5*1024*1024)
		}
		if err == nil && pre != nil {
			// transparency: compressed or not, the data returned is the document's and nothing else
			vAssert("C12.compressed-or-not-the-pre-decoder-returns-the-documents-data", vAnd(vAnd(pre.ID == s.ID, pre.Destination == s.Destination),
				vAnd(pre.InResponseTo == s.InResponseTo, pre.Version == s.Version)))
			vAssert("C12.compressed-or-not-the-pre-decoder-returns-the-documents-issuer", (pre.Issuer != nil) == s.hasIssuer)
			if pre.Issuer != nil && s.hasIssuer {
				vAssert("C12.compressed-or-not-the-pre-decoder-returns-the-documents-issuer-value", pre.Issuer.Value == s.Issuer)
			}
		}
	}
	vAssert("C12.inflater-always-limited", vNot(vReadAllUnlimited()))
}

// VH_C09_root_kinds: every inbound entry point on messages whose ROOT is not what the entry point expects
// (Assertion, EncryptedAssertion, LogoutRequest, LogoutResponse, an unrelated element) with signature
// none / valid / invalid: a result or an error, never a panic.
func VH_C09_root_kinds() {
	sp := vhOrchSP(vFlag("skipSignatureValidation"))
	sp.ServiceProviderSLOURL = vString("slo")
	sig := vChoice("root.sig", 3)
	var root *etree.Element
	kind := vChoice("root.kind", 5)
	switch kind {
	case 0:
		root = vhAssertionEl("root", sig).el
	case 1:
		inner := vhAssertionEl("inner", vChoice("inner.sig", 2))
		root = vhEncryptedEl("root.enc", inner.el)
		root.CreateAttr("vx-sig", vhSigNames[sig])
		root.CreateAttr("ID", vIDString("root.ID"))
		if sig != vhSigNone {
			sg := root.CreateElement("ds:Signature")
			sg.CreateAttr("xmlns:ds", "http://www.w3.org/2000/09/xmldsig#")
		}
	case 2:
		root = vhLogoutRoot("samlp:LogoutRequest", sig, "root").root
	case 3:
		root = vhLogoutRoot("samlp:LogoutResponse", sig, "root").root
	case 4:
		root = etree.NewElement("samlp:ArtifactResolve")
		root.CreateAttr("xmlns:samlp", "urn:oasis:names:tc:SAML:2.0:protocol")
		root.CreateAttr("ID", vIDString("root.ID"))
		root.CreateAttr("vx-sig", vhSigNames[sig])
		root.CreateAttr("vx-name", "root")
		if sig != vhSigNone {
			sg := root.CreateElement("ds:Signature")
			sg.CreateAttr("xmlns:ds", "http://www.w3.org/2000/09/xmldsig#")
		}
	}
	enc := vEncodeDoc("wire", root, 0)
	switch vChoice("entry", 6) {
	case 0:
		r, err := sp.ValidateEncodedResponse(enc)
		vAssert("C09.result-xor-error", (r != nil) != (err != nil))
		vAssert("C01,C10.a-message-of-another-kind-is-never-accepted-as-sso-response", err != nil)
	case 1:
		r, err := sp.RetrieveAssertionInfo(enc)
		vAssert("C09.result-xor-error", (r != nil) != (err != nil))
		vAssert("C01,C10.a-message-of-another-kind-is-never-accepted-as-sso-response", err != nil)
	case 2:
		r, err := sp.ValidateEncodedLogoutRequestPOST(enc)
		vAssert("C09.result-xor-error", (r != nil) != (err != nil))
		vAssert("C10.only-a-LogoutRequest-is-accepted-as-logout-request", err != nil || kind == 2)
	case 3:
		r, err := sp.ValidateEncodedLogoutResponsePOST(enc)
		vAssert("C09.result-xor-error", (r != nil) != (err != nil))
		vAssert("C10.only-a-LogoutResponse-is-accepted-as-logout-response", err != nil || kind == 3)
	case 4:
		r, err := DecodeUnverifiedBaseResponse(enc)
		vAssert("C09.result-xor-error", (r != nil) != (err != nil))
	case 5:
		r, err := DecodeUnverifiedLogoutResponse(enc)
		vAssert("C09.result-xor-error", (r != nil) != (err != nil))
	}
	vReach("returned", true)
}

// VH_C09_bare_config: an SP that supplies only an (empty) certificate store — no keys, no clock, nothing
// else — fed the SSO and logout scenarios through every entry point: a result or an error, never a panic.
func VH_C09_bare_config() {
	sp := &SAMLServiceProvider{IDPCertificateStore: vEmptyStore(), SkipSignatureValidation: vFlag("skipSignatureValidation")}
	switch vChoice("keys", 3) {
	case 1:
		// a signing-only SP: it can sign requests but has no decryption key
		sp.SPSigningKeyStore = dsig.TLSCertKeyStore(vhTLSCert())
	case 2:
		sp.SetSPSigningKeyStore(&KeyStore{Signer: vRSAKey("sp"), Cert: vBytes("signcert")})
	}
	var root *etree.Element
	if vFlag("logout-message") {
		kinds := []string{"samlp:LogoutRequest", "samlp:LogoutResponse"}
		root = vhLogoutRoot(kinds[vChoice("root.kind", 2)], vChoice("root.sig", 3), "root").root
	} else {
		s := vhSSOScenario(1, vhKidKinds)
		root = s.root
	}
	enc := vEncodeDoc("wire", root, 0)
	switch vChoice("entry", 6) {
	case 0:
		r, err := sp.ValidateEncodedResponse(enc)
		vAssert("C09.result-xor-error", (r != nil) != (err != nil))
	case 1:
		r, err := sp.RetrieveAssertionInfo(enc)
		vAssert("C09.result-xor-error", (r != nil) != (err != nil))
	case 2:
		r, err := sp.ValidateEncodedLogoutRequestPOST(enc)
		vAssert("C09.result-xor-error", (r != nil) != (err != nil))
	case 3:
		r, err := sp.ValidateEncodedLogoutResponsePOST(enc)
		vAssert("C09.result-xor-error", (r != nil) != (err != nil))
	case 4:
		r, err := DecodeUnverifiedBaseResponse(enc)
		vAssert("C09.result-xor-error", (r != nil) != (err != nil))
	case 5:
		r, err := DecodeUnverifiedLogoutResponse(enc)
		vAssert("C09.result-xor-error", (r != nil) != (err != nil))
	}
	vReach("returned", true)
}

// VH_C02_cert_window: the SP clock (not the wall clock) decides whether the IdP certificate is inside its
// validity period: with the SP clock beyond the certificate's NotAfter (2100-01-01) every validly signed
// message is rejected by all four validating entry points.
func VH_C02_cert_window() {
	sp := vhOrchSP(false)
	vClockBetween("sp", 4133980800000000000, 7258118400000000000) // 2101 .. 2200
	sp.ServiceProviderSLOURL = vString("slo")
	var err error
	switch vChoice("entry", 4) {
	case 0, 1:
		s := &vhScenario{rootSig: vChoice("root.sig", 2)}
		s.root = vhResponseRoot(s, "samlp:Response")
		a := vhAssertionEl("c0", vhSigValid)
		vAssume(a.ID != s.ID)
		s.root.AddChild(a.el)
		enc := vEncodeDoc("wire", s.root, 0)
		if vFlag("via-retrieve") {
			_, err = sp.RetrieveAssertionInfo(enc)
		} else {
			_, err = sp.ValidateEncodedResponse(enc)
		}
	case 2:
		l := vhLogoutRoot("samlp:LogoutRequest", vhSigValid, "root")
		_, err = sp.ValidateEncodedLogoutRequestPOST(vEncodeDoc("wire", l.root, 0))
	case 3:
		l := vhLogoutRoot("samlp:LogoutResponse", vhSigValid, "root")
		_, err = sp.ValidateEncodedLogoutResponsePOST(vEncodeDoc("wire", l.root, 0))
	}
	vDebugErr("validate", err)
	vReach("rejected", err != nil)
	vAssert("C02.certificate-outside-its-validity-at-the-sp-clock-is-fatal", err != nil)
}

// VH_C08_genuine: completeness — a Response a conforming IdP issues for this SP (trusted signature on the
// Response, on each assertion, or both; plain or encrypted assertions; raw or compressed) is ACCEPTED
// whenever it satisfies the profile checks; a rejection must be explained by a violated check (or by a
// dependency outcome the models leave open: round-trip screen, certificate trust).
func vhGenuine(maxKids int) { vhGenuineL(maxKids, false) }

// vhGenuineL (layouts): two encrypted assertions whose key conveyance varies independently.
func vhGenuineL(maxKids int, layouts bool) {
	vhSplitText = !layouts
	vhEncLayouts = layouts
	vhEmptyCData = false
	defer func() { vhSplitText, vhEncLayouts, vhEmptyCData = false, false, false }()
	sp := vhOrchSP(false)
	if !layouts && vFlag("earlier-configuration") {
		// a long-lived SP whose trust store did not hold the IdP certificate yet when it first validated something
		final := sp.IDPCertificateStore
		sp.IDPCertificateStore = vEmptyStore()
		w := vhLogoutRoot("samlp:LogoutRequest", vhSigValid, "warm")
		_, werr := sp.ValidateEncodedLogoutRequestPOST(vEncodeDoc("wire0", w.root, 0))
		vDebugErr("warm-up", werr)
		sp.IDPCertificateStore = final
	}
	s := &vhScenario{rootSig: vhSigValid}
	if !layouts {
		s.rootSig = vChoice("root.sig", 2) // none or valid
	}
	s.root = vhResponseRoot(s, "samlp:Response")
	if !layouts && s.rootSig == vhSigNone {
		vhInheritPrefix = vFlag("encrypted.saml-prefix-declared-on-the-root-only")
		defer func() { vhInheritPrefix = false }()
	}
	n := 1 + vChoice("nChildren-1", maxKids)
	if layouts {
		n = 2
	}
	for i := 0; i < n; i++ {
		p := "c" + string(rune('0'+i))
		asig := vhSigValid
		if layouts {
			asig = vhSigNone // the signed Response vouches; the layouts of the encryption are the subject
		} else if s.rootSig == vhSigValid {
			asig = vChoice(p+".sig", 2) // under a signed Response the assertion itself may be unsigned
		}
		a := vhAssertionEl(p, asig)
		if layouts || vFlag(p+".encrypted") {
			s.root.AddChild(vhEncryptedEl(p+".enc", a.el))
		} else {
			s.root.AddChild(a.el)
		}
		s.order = append(s.order, a)
	}
	ids := []string{s.ID}
	for _, a := range s.order {
		ids = append(ids, a.ID)
	}
	for i := range ids {
		for j := i + 1; j < len(ids); j++ {
			vAssume(ids[i] != ids[j])
		}
	}
	mode := 0
	if !layouts {
		mode = vChoice("wire.mode", 2)
	}
	enc := vEncodeDoc("wire", s.root, mode)
	resp, err := sp.ValidateEncodedResponse(enc)
	vDebugErr("ValidateEncodedResponse", err)
	vReach("accepted", err == nil)
	vReach("rejected", err != nil)
	if err == nil {
		vAssert("C08,C11.full-assertion-list-returned-in-order", len(resp.Assertions) == n && vhSameInOrder(resp.Assertions, s.order))
		return
	}
	if vCertRejections() > 0 || (vScreenRejections() > 0 && !vhEmptyCData) {
		return // a dependency outcome the contracts leave open
	}
	// specification of "satisfies the profile": judged at the last reading of the SP clock
	ok := vAnd(s.Version == "2.0", vOr(s.Destination == "", s.Destination == sp.AssertionConsumerServiceURL))
	ok = vAnd(ok, vOr(sp.IdentityProviderIssuer == "", s.Issuer == sp.IdentityProviderIssuer))
	ok = vAnd(ok, s.StatusCode == "urn:oasis:names:tc:SAML:2.0:status:Success")
	if mode == 1 {
		ok = vAnd(ok, vWireInflatedLen("wire") <= 5*1024*1024) // within the (default) decompression limit, C12
	}
	reads := vClockReads("sp")
	for _, a := range s.order {
		ok = vAnd(ok, vOr(sp.IdentityProviderIssuer == "", a.Issuer == sp.IdentityProviderIssuer))
		ok = vAnd(ok, vAnd(a.Method == "urn:oasis:names:tc:SAML:2.0:cm:bearer", a.Recipient == sp.AssertionConsumerServiceURL))
		ok = vAnd(ok, vAnd(a.NotOnOrAfter != "", vParseOK(a.NotOnOrAfter)))
		if reads >= 1 {
			ok = vAnd(ok, vClockAt("sp", reads-1) < vParseNs(a.NotOnOrAfter))
		}
	}
	if vhEmptyCData {
		vAssert("C08.genuine-response-with-an-empty-cdata-section-is-accepted", vNot(ok))
		return
	}
	vAssert("C08,C11.genuine-response-satisfying-the-profile-is-accepted", vNot(ok))
}

// VH_C11_encrypted_layouts: a genuine Response carrying two encrypted assertions, each with its own key conveyance.
func VH_C11_encrypted_layouts() { vhGenuineL(1, true) }

func VH_C08_genuine()      { vhGenuine(1) }
func VH_C08_genuine_deep() { vhGenuine(2) }

// VH_C01_summary_first: with several verified assertions the caller-facing summary (NameID, attributes,
// session index, warnings) is taken from the FIRST one, in document order, whether or not it is encrypted.
func VH_C01_summary_first() {
	sp := vhOrchSP(false)
	s := &vhScenario{rootSig: vChoice("root.sig", 2)}
	s.root = vhResponseRoot(s, "samlp:Response")
	n := 2 + vChoice("nAssertions-2", 2)
	indented := vFlag("indented") // a pretty-printed message: white-space text between the Response's children
	for i := 0; i < n; i++ {
		p := "c" + string(rune('0'+i))
		a := vhAssertionEl(p, vhSigValid)
		if indented {
			s.root.CreateText("\n  ")
		}
		if vFlag(p + ".encrypted") {
			s.root.AddChild(vhEncryptedEl(p+".enc", a.el))
		} else {
			s.root.AddChild(a.el)
		}
		s.order = append(s.order, a)
	}
	ids := []string{s.ID}
	for _, a := range s.order {
		ids = append(ids, a.ID)
	}
	for i := range ids {
		for j := i + 1; j < len(ids); j++ {
			vAssume(ids[i] != ids[j])
		}
	}
	info, err := sp.RetrieveAssertionInfo(vEncodeDoc("wire", s.root, 0))
	vDebugErr("RetrieveAssertionInfo", err)
	vReach("accepted", err == nil)
	if err != nil {
		return
	}
	first := s.order[0]
	vAssert("C01,C08.summary-is-taken-from-the-first-verified-assertion", vAnd(info.NameID == first.NameID, info.SessionIndex == first.SessionIndex))
	at, have := info.Values[first.AttrName]
	vAssert("C01,C08.summary-attributes-are-the-first-assertions", have && len(at.Values) == 1 && len(info.Values) == 1)
	if have && len(at.Values) == 1 {
		vAssert("C01,C08.summary-attribute-value", at.Values[0].Value == first.AttrValue)
	}
	vAssert("C01,C08.all-verified-assertions-listed-in-order", len(info.Assertions) == n && vhSameInOrder(info.Assertions, s.order))
	if w := info.WarningInfo; w != nil {
		vAssert("C06.audience-warning-reflects-the-first-assertion", vIff(w.NotInAudience, first.Audience != sp.AudienceURI))
	}
}
