//go:build verif

package saml2

import (
	"github.com/beevik/etree"
)

func vhAttr(e *etree.Element, key string) (string, int) {
	v, n := "", 0
	for _, a := range e.Attr {
		if a.Space == "" && a.Key == key {
			if n == 0 {
				v = a.Value
			}
			n++
		}
	}
	return v, n
}

func vhNSAttr(e *etree.Element, space, key string) (string, int) {
	v, n := "", 0
	for _, a := range e.Attr {
		if a.Space == space && a.Key == key {
			if n == 0 {
				v = a.Value
			}
			n++
		}
	}
	return v, n
}

// vhText: the element has exactly one child, a character-data token; returns its data.
func vhText(e *etree.Element) (string, bool) {
	if len(e.Child) == 0 {
		return "", true // empty text: no character-data token at all
	}
	if len(e.Child) != 1 {
		return "", false
	}
	cd, ok := e.Child[0].(*etree.CharData)
	if !ok {
		return "", false
	}
	return cd.Data, true
}

func vhChildNames(e *etree.Element) []string {
	var out []string
	for _, c := range e.Child {
		if ce, ok := c.(*etree.Element); ok {
			out = append(out, ce.Space+":"+ce.Tag)
		} else {
			out = append(out, "#other")
		}
	}
	return out
}

func vhSameNames(a []string, b ...string) bool {
	if len(a) != len(b) {
		return false
	}
	for i := range a {
		if a[i] != b[i] {
			return false
		}
	}
	return true
}

func vhBuilderSP() *SAMLServiceProvider {
	return &SAMLServiceProvider{
		IdentityProviderSSOURL:      vString("idpSSO"),
		IdentityProviderSLOURL:      vString("idpSLO"),
		IdentityProviderIssuer:      vString("idpIssuer"),
		ServiceProviderIssuer:       vString("spIssuer"),
		AssertionConsumerServiceURL: vString("acs"),
		NameIdFormat:                vString("nameIdFormat"),
		ForceAuthn:                  vFlag("forceAuthn"),
		IsPassive:                   vFlag("isPassive"),
		Clock:                       vClock("sp"),
	}
}

// vhCheckCommonRoot: namespace declarations, ID, Version, IssueInstant (UTC rendering of the SP clock),
// Destination, Issuer first with SP issuer (fallback IdP issuer).
func vhCheckCommonRoot(sp *SAMLServiceProvider, root *etree.Element, tag, dest string) {
	vAssert("C15.root-name", root.Space == "samlp" && root.Tag == tag)
	p, np := vhNSAttr(root, "xmlns", "samlp")
	a, na := vhNSAttr(root, "xmlns", "saml")
	vAssert("C15.protocol-namespace-declared", np == 1 && p == "urn:oasis:names:tc:SAML:2.0:protocol")
	vAssert("C15.assertion-namespace-declared", na == 1 && a == "urn:oasis:names:tc:SAML:2.0:assertion")
	ver, nv := vhAttr(root, "Version")
	vAssert("C15.version-2.0", nv == 1 && ver == "2.0")
	id, nid := vhAttr(root, "ID")
	vAssert("C15.one-ID", nid == 1)
	vAssert("C18.id-is-underscore-plus-uuid", vIsUnderscoreUUID(id))
	ii, nii := vhAttr(root, "IssueInstant")
	vAssert("C15.sp-clock-consulted", vClockReads("sp") >= 1)
	if reads := vClockReads("sp"); reads >= 1 {
		isSome := false
		for k := 0; k < reads && k < 4; k++ {
			isSome = vOr(isSome, ii == vFormatUTC("2006-01-02T15:04:05Z", vClockAt("sp", k)))
		}
		vAssert("C15.issue-instant-is-sp-clock-in-utc", vAnd(nii == 1, isSome))
	}
	d, nd := vhAttr(root, "Destination")
	vAssert("C15.destination-is-idp-endpoint-of-the-flow", vAnd(nd == 1, d == dest))
	// Issuer
	if len(root.Child) < 1 {
		vAssert("C15.issuer-first", false)
		return
	}
	is, ok := root.Child[0].(*etree.Element)
	vAssert("C15.issuer-first", ok && is.Space == "saml" && is.Tag == "Issuer" && len(is.Attr) == 0)
	if ok {
		t, tok := vhText(is)
		want := vIteS(sp.ServiceProviderIssuer != "", sp.ServiceProviderIssuer, sp.IdentityProviderIssuer)
		vAssert("C15.issuer-is-sp-issuer-else-idp-issuer", vAnd(tok, t == want))
	}
}

func vhAllowedAttrs(e *etree.Element, allowed ...string) bool {
	for _, a := range e.Attr {
		ok := false
		for _, k := range allowed {
			if a.Space == "" && a.Key == k {
				ok = true
			}
		}
		if a.Space == "xmlns" {
			ok = true
		}
		if !ok {
			return false
		}
	}
	return true
}

func VH_C15_authn_request() {
	sp := vhBuilderSP()
	nctx := 0
	if vFlag("rac.present") {
		rac := &RequestedAuthnContext{Comparison: vString("rac.comparison")}
		nctx = vChoice("rac.nContexts", 3)
		for i := 0; i < nctx; i++ {
			rac.Contexts = append(rac.Contexts, vString("rac.ctx"+string(rune('0'+i))))
		}
		sp.RequestedAuthnContext = rac
	}
	vRandInstall()
	doc, err := sp.BuildAuthRequestDocumentNoSig()
	vAssert("C15.build-succeeds", err == nil && doc != nil)
	if err != nil || doc == nil {
		return
	}
	root := doc.Root()
	vAssert("C15.has-root", root != nil)
	if root == nil {
		return
	}
	vReach("built", true)
	vhCheckCommonRoot(sp, root, "AuthnRequest", sp.IdentityProviderSSOURL)
	acs, nacs := vhAttr(root, "AssertionConsumerServiceURL")
	vAssert("C15.acs-url", vAnd(nacs == 1, acs == sp.AssertionConsumerServiceURL))
	pb, npb := vhAttr(root, "ProtocolBinding")
	vAssert("C15.protocol-binding-post", npb == 1 && pb == "urn:oasis:names:tc:SAML:2.0:bindings:HTTP-POST")
	fa, nfa := vhAttr(root, "ForceAuthn")
	vAssert("C15.force-authn-iff-configured", (nfa == 1 && fa == "true") == sp.ForceAuthn && nfa <= 1)
	ip, nip := vhAttr(root, "IsPassive")
	vAssert("C15.is-passive-iff-configured", (nip == 1 && ip == "true") == sp.IsPassive && nip <= 1)
	vAssert("C15.no-unexpected-root-attributes", vhAllowedAttrs(root, "ID", "Version", "ProtocolBinding", "AssertionConsumerServiceURL", "IssueInstant", "Destination", "ForceAuthn", "IsPassive"))
	names := vhChildNames(root)
	if sp.RequestedAuthnContext == nil {
		vAssert("C15.children-in-schema-order", vhSameNames(names, "saml:Issuer", "samlp:NameIDPolicy"))
	} else {
		vAssert("C15.children-in-schema-order", vhSameNames(names, "saml:Issuer", "samlp:NameIDPolicy", "samlp:RequestedAuthnContext"))
	}
	if len(root.Child) >= 2 {
		if nip, ok := root.Child[1].(*etree.Element); ok {
			ac, nac := vhAttr(nip, "AllowCreate")
			vAssert("C15.nameidpolicy-allowcreate", nac == 1 && ac == "true")
			f, nf := vhAttr(nip, "Format")
			vAssert("C15.nameid-format-iff-configured", vIff(nf == 1, sp.NameIdFormat != ""))
			if nf == 1 {
				vAssert("C15.nameid-format-value", f == sp.NameIdFormat)
			}
			vAssert("C15.nameidpolicy-shape", len(nip.Child) == 0 && vhAllowedAttrs(nip, "AllowCreate", "Format"))
		}
	}
	if sp.RequestedAuthnContext != nil && len(root.Child) >= 3 {
		if rac, ok := root.Child[2].(*etree.Element); ok {
			c, nc := vhAttr(rac, "Comparison")
			vAssert("C15.rac-comparison", vAnd(nc == 1, c == sp.RequestedAuthnContext.Comparison))
			vAssert("C15.rac-context-count", len(rac.Child) == nctx && len(rac.Attr) == 1)
			if len(rac.Child) == nctx {
				for i := 0; i < nctx; i++ {
					ce, ok := rac.Child[i].(*etree.Element)
					if !ok {
						vAssert("C15.rac-context-element", false)
						continue
					}
					t, tok := vhText(ce)
					vAssert("C15.rac-context-value-in-order", vAnd(ce.Space == "saml" && ce.Tag == "AuthnContextClassRef" && len(ce.Attr) == 0 && tok, t == sp.RequestedAuthnContext.Contexts[i]))
				}
			}
		}
	}
}

func VH_C15_logout_request() {
	sp := vhBuilderSP()
	nameID, sessionIndex := vString("nameID"), vString("sessionIndex")
	vRandInstall()
	doc, err := sp.BuildLogoutRequestDocumentNoSig(nameID, sessionIndex)
	vAssert("C15.build-succeeds", err == nil && doc != nil)
	if err != nil || doc == nil || doc.Root() == nil {
		return
	}
	root := doc.Root()
	vReach("built", true)
	vhCheckCommonRoot(sp, root, "LogoutRequest", sp.IdentityProviderSLOURL)
	vAssert("C15.no-unexpected-root-attributes", vhAllowedAttrs(root, "ID", "Version", "IssueInstant", "Destination"))
	vAssert("C15.children-in-schema-order", vhSameNames(vhChildNames(root), "saml:Issuer", "saml:NameID", "samlp:SessionIndex"))
	if len(root.Child) == 3 {
		if n, ok := root.Child[1].(*etree.Element); ok {
			t, tok := vhText(n)
			vAssert("C15.nameid-value", vAnd(tok, t == nameID))
			f, nf := vhAttr(n, "Format")
			vAssert("C15.nameid-format", vAnd(nf == 1 && len(n.Attr) == 1, f == sp.NameIdFormat))
		}
		if s, ok := root.Child[2].(*etree.Element); ok {
			t, tok := vhText(s)
			vAssert("C15.session-index-value", vAnd(tok && len(s.Attr) == 0, t == sessionIndex))
		}
	}
}

func VH_C15_logout_response() {
	sp := vhBuilderSP()
	status, reqID := vString("status"), vString("reqID")
	vRandInstall()
	doc, err := sp.BuildLogoutResponseDocumentNoSig(status, reqID)
	vAssert("C15.build-succeeds", err == nil && doc != nil)
	if err != nil || doc == nil || doc.Root() == nil {
		return
	}
	root := doc.Root()
	vReach("built", true)
	vhCheckCommonRoot(sp, root, "LogoutResponse", sp.IdentityProviderSLOURL)
	irt, n := vhAttr(root, "InResponseTo")
	vAssert("C15.in-response-to", vAnd(n == 1, irt == reqID))
	vAssert("C15.no-unexpected-root-attributes", vhAllowedAttrs(root, "ID", "Version", "IssueInstant", "Destination", "InResponseTo"))
	vAssert("C15.children-in-schema-order", vhSameNames(vhChildNames(root), "saml:Issuer", "samlp:Status"))
	if len(root.Child) == 2 {
		if st, ok := root.Child[1].(*etree.Element); ok {
			vAssert("C15.status-shape", vhSameNames(vhChildNames(st), "samlp:StatusCode") && len(st.Attr) == 0)
			if len(st.Child) == 1 {
				if sc, ok := st.Child[0].(*etree.Element); ok {
					v, nv := vhAttr(sc, "Value")
					vAssert("C15.status-code-value", vAnd(nv == 1 && len(sc.Attr) == 1 && len(sc.Child) == 0, v == status))
				}
			}
		}
	}
}
