//go:build verif

package saml2

import (
	"crypto"

	"github.com/beevik/etree"
)

// vhRedirectSP: SP with a real (natively) RSA signing key in the deprecated key-store field.
func vhRedirectSP() *SAMLServiceProvider {
	sp := vhBuilderSP()
	sp.IdentityProviderSSOURL = vURL("idpSSO", vFlag("idpSSO.hasQuery"))
	sp.IdentityProviderSLOURL = vURL("idpSLO", vFlag("idpSLO.hasQuery"))
	sp.SPKeyStore = &vhKS{key: vRSAKey("sp"), cert: vBytes("spcert")}
	return sp
}

func vhSomeDoc() *etree.Document {
	doc := etree.NewDocument()
	root := etree.NewElement("samlp:AuthnRequest")
	root.CreateAttr("xmlns:samlp", "urn:oasis:names:tc:SAML:2.0:protocol")
	root.CreateAttr("ID", vIDString("doc.ID"))
	if vFlag("doc.has-destination") {
		// a caller-supplied document may be addressed anywhere: the binding endpoints come from the configuration
		root.CreateAttr("Destination", vString("doc.Destination"))
	}
	if vFlag("doc.has-signature-child") {
		// a caller-supplied document may already carry an enveloped signature: it is part of "the exact message"
		sg := root.CreateElement("ds:Signature")
		sg.CreateAttr("xmlns:ds", "http://www.w3.org/2000/09/xmldsig#")
		sg.CreateElement("ds:SignatureValue").CreateText(vQueryString("doc.sigvalue"))
	}
	root.CreateText(vQueryString("doc.text"))
	doc.SetRoot(root)
	return doc
}

// vhExpectedQuery: the query string the URL must carry (keys sorted as url.Values.Encode does):
// RelayState, SAMLRequest, SigAlg, Signature, tenant — in that (lexicographic) order.
func vhExpectedQuery(relay, samlRequest string, signed bool, sigAlg, signature, tenant string, hasTenant bool) string {
	q := ""
	add := func(k, v string) {
		if q != "" {
			q += "&"
		}
		q += k + "=" + vQEsc(v)
	}
	if relay != "" {
		add("RelayState", relay)
	}
	add("SAMLRequest", samlRequest)
	if signed {
		add("SigAlg", sigAlg)
		add("Signature", signature)
	}
	if hasTenant {
		add("tenant", tenant)
	}
	return q
}

func vhC14(logout bool) {
	vB64AlphabetAxiom()
	sp := vhRedirectSP()
	sp.SignAuthnRequests = vFlag("signAuthnRequests")
	sp.SignAuthnRequestsAlgorithm = vString("signAlgorithmConfigured")
	doc := vhSomeDoc()
	relay := vQueryString("relay")
	redirect := vFlag("redirect-binding")
	endpoint := sp.IdentityProviderSSOURL
	if vFlag("earlier-call") {
		// the same SP built another URL before (other message, other relay state): this one stands on its own
		doc0 := etree.NewDocument()
		r0 := etree.NewElement("samlp:AuthnRequest")
		r0.CreateAttr("ID", vIDString("doc0.ID"))
		doc0.SetRoot(r0)
		if logout {
			sp.BuildLogoutURLRedirect(vQueryString("relay0"), doc0)
		} else {
			sp.BuildAuthURLRedirect(vQueryString("relay0"), doc0)
		}
	}
	var out string
	var err error
	docBefore := vTreeSig(doc.Root())
	switch {
	case logout:
		endpoint = sp.IdentityProviderSLOURL
		redirect = true
		out, err = sp.BuildLogoutURLRedirect(relay, doc)
	case redirect:
		out, err = sp.BuildAuthURLRedirect(relay, doc)
	default:
		out, err = sp.BuildAuthURLFromDocument(relay, doc)
	}
	vDebugErr("build", err)
	vAssert("C14,C17.the-supplied-document-is-not-modified", vTreeSig(doc.Root()) == docBefore)
	if err != nil {
		vReach("error", true)
		vAssert("C14.error-implies-no-url", out == "")
		return
	}
	vReach("built", true)
	signed := logout || (sp.SignAuthnRequests && redirect)
	samlRequest := vB64(vBytesOf(vDeflated(vSerialised(doc))))
	// the Signature parameter, as the URL carries it, and the hash it was really computed with
	signature := vSignatureOf(out)
	sigAlg := ""
	if signed {
		// what must have been signed, for each supported hash (SigAlg names that hash)
		for _, cand := range []struct {
			h   crypto.Hash
			uri string
		}{{crypto.SHA256, "http://www.w3.org/2001/04/xmldsig-more#rsa-sha256"}, {crypto.SHA1, "http://www.w3.org/2000/09/xmldsig#rsa-sha1"},
			{crypto.SHA384, "http://www.w3.org/2001/04/xmldsig-more#rsa-sha384"}, {crypto.SHA512, "http://www.w3.org/2001/04/xmldsig-more#rsa-sha512"}} {
			s := "SAMLRequest=" + vQEsc(samlRequest)
			if relay != "" {
				s += "&RelayState=" + vQEsc(relay)
			}
			s += "&SigAlg=" + vQEsc(cand.uri)
			vSetSignedContent(s)
			if vSignedHash(signature) == cand.h {
				sigAlg = cand.uri
				break
			}
		}
		vAssert("C14.signature-made-with-a-supported-hash-over-the-spec-string", sigAlg != "")
	}
	want := vURLBase(endpoint) + "?" + vhExpectedQuery(relay, samlRequest, signed, sigAlg, signature, vURLTenant(endpoint), vURLHasTenant(endpoint))
	vAssert("C14.url-is-endpoint-plus-exact-parameters", out == want)
	if signed {
		s := "SAMLRequest=" + vQEsc(samlRequest)
		if relay != "" {
			s += "&RelayState=" + vQEsc(relay)
		}
		s += "&SigAlg=" + vQEsc(sigAlg)
		vAssert("C14.signature-covers-the-ordered-percent-encoded-octets", vSigVerifies(signature, s, vRSAKey("sp"), vSignedHash(signature)))
	}
}

func VH_C14_auth_url()   { vhC14(false) }
func VH_C14_logout_url() { vhC14(true) }
