//go:build verif

package saml2

import "errors"

var errVHDecode = errors.New("vh: decoder rejects")

// VH_C12_maybeDeflate: try-raw-then-inflate is bounded by the limit and otherwise transparent
// (DESIGN B.7). limit, the inflated size T and the decoder verdicts are symbolic.
func VH_C12_maybeDeflate() {
	raw := vBlob("raw")
	limit := vI64("limit")
	vAssume(limit >= 0)
	T := vInflatedLen(raw)
	vAssume(vAnd(T >= 0, T <= 1<<26))
	vAssume(vNot(vDecodeOK([]byte{})))

	calls := 0
	var seen [][]byte
	dec := func(b []byte) error {
		calls++
		seen = append(seen, b)
		if vDecodeOK(b) {
			return nil
		}
		return errVHDecode
	}
	if vFlag("earlier-message") {
		// the same process handled another message before (any outcome): this one is judged on its own
		raw0 := vBlob("raw0")
		vAssume(vAnd(vInflatedLen(raw0) >= 0, vInflatedLen(raw0) <= 1<<26))
		err0 := maybeDeflate(raw0, limit, func(b []byte) error {
			if vDecodeOK(b) {
				return nil
			}
			return errVHDecode
		})
		vDebugErr("earlier", err0)
	}
	vMemMark()
	readAllsBefore := vReadAllCalls()
	err := maybeDeflate(raw, limit, dec)

	eff := vIteI(limit == 0, 5*1024*1024, limit)
	if vDecodeOK(raw) {
		vReach("raw-accepted", true)
		vAssert("C12.raw-accepted-without-inflating", vAnd(err == nil, vAnd(calls == 1, vReadAllCalls() == readAllsBefore)))
		return
	}
	vAssert("C12.inflater-always-limited", vNot(vReadAllUnlimited()))
	// (the coarse bound first: it is the one a native replay can observe; a failed assertion is assumed to hold afterwards)
	vAssert("C12.materialised-within-8x-limit", vOr(eff > 1<<23, vMaterialised() <= 8*(eff+1)+(1<<20)))
	vAssertModel("C12.materialised-at-most-limit-plus-one", vMaterialised()-1 <= eff)
	expectOK := vAnd(vNot(vInflateErr(raw)), vAnd(T <= eff, vInflatedDecodeOK(raw)))
	if err == nil {
		vReach("inflated-accepted", true)
		vAssert("C12.accepted-implies-within-limit-and-decodable", expectOK)
		vAssert("C12.decoder-ran-on-the-inflated-message", calls >= 2)
		if calls >= 2 {
			vAssert("C12.decoder-sees-exactly-the-inflated-message", vIsInflateOf(seen[len(seen)-1], raw))
		}
	} else {
		vReach("rejected", true)
		vReach("rejected-oversize", T > eff)
		vAssert("C12.rejected-implies-oversize-corrupt-or-undecodable", vNot(expectOK))
	}
}
