//go:build verif

package saml2

// VH_C17_pooled_memory: memory that a call obtained from a shared pool (sync.Pool) must not be read any more once
// the call has handed it back: another goroutine may already be writing into it. Symbolically the validators run
// once over a compressed message and every read through a view of a released buffer is counted; the replay runs the
// same call from several goroutines under the race detector.
func VH_C17_pooled_memory() {
	sp := vhOrchSP(vFlag("skipSignatureValidation"))
	sp.ServiceProviderSLOURL = vString("slo")
	kinds := []string{"samlp:LogoutRequest", "samlp:LogoutResponse", "samlp:Response"}
	k := vChoice("root.kind", 3)
	l := vhLogoutRoot(kinds[k], vhSigNone, "root")
	if k == 2 {
		a := vhAssertionEl("c0", vhSigValid)
		vAssume(a.ID != l.ID)
		l.root.AddChild(a.el)
	}
	enc := vEncodeDoc("wire", l.root, vChoice("wire.mode", 2))
	vConcurrently(4, func() {
		switch k {
		case 0:
			sp.ValidateEncodedLogoutRequestPOST(enc)
		case 1:
			sp.ValidateEncodedLogoutResponsePOST(enc)
		default:
			sp.ValidateEncodedResponse(enc)
		}
	})
	vReach("ran", true)
	vAssertModel("C17,C02.no-pooled-memory-is-read-after-it-was-handed-back", vPoolUseAfterPut() == 0)
}
