//go:build verif

package saml2

// Native side of the harness API: the same harness functions run against the real build,
// reading the solver's assignment from a JSON file (replay of counterexamples and witnesses).

import (
	"bytes"
	"crypto/tls"
	"crypto/x509"
	"encoding/xml"
	rtvalidator "github.com/mattermost/xml-roundtrip-validator"
	"html"
	"math/big"
	"net/url"
	"strings"
	_ "time/tzdata"

	"compress/flate"
	"crypto"
	"crypto/aes"
	"crypto/cipher"
	"crypto/rand"
	"crypto/rsa"
	"crypto/sha1"
	"crypto/sha256"
	"crypto/sha512"
	"encoding/base64"
	"encoding/binary"
	"encoding/json"
	"fmt"
	"github.com/beevik/etree"
	"hash"
	"io"
	"reflect"
	"regexp"
	"runtime"
	"strconv"
	"sync"
	"time"
	"unsafe"

	"github.com/jonboulle/clockwork"
	dsig "github.com/russellhaering/goxmldsig"
)

type vxState struct {
	inputs    map[string]interface{}
	counters  map[string]int
	failed    []string
	reached   []string
	assumeBad []string
	clocks    map[string]*vxClock
	notes     []string
}

var vx *vxState

type vxAbort struct{ why string }

var vxOrigRandReader = rand.Reader

func vxReset(inputs map[string]interface{}) {
	rand.Reader = vxOrigRandReader
	vx = &vxState{inputs: inputs, counters: map[string]int{}, clocks: map[string]*vxClock{}}
	vxScreenRejected = 0
}

func vxFresh(name string) string {
	n := vx.counters[name]
	vx.counters[name] = n + 1
	if n == 0 {
		return name
	}
	return fmt.Sprintf("%s#%d", name, n)
}

func vxGet(name string) (interface{}, bool) {
	v, ok := vx.inputs[name]
	return v, ok
}

func vxI64(name string) int64 {
	v, ok := vxGet(name)
	if !ok {
		return 0
	}
	switch x := v.(type) {
	case string:
		i, _ := strconv.ParseInt(x, 10, 64)
		return i
	case float64:
		return int64(x)
	case json.Number:
		i, _ := x.Int64()
		return i
	}
	return 0
}

func vBool(name string) bool {
	v, _ := vxGet(vxFresh(name))
	b, _ := v.(bool)
	return b
}
func vFlag(name string) bool { return vxI64(vxFresh(name)) != 0 }
func vByte(name string) byte { return byte(vxI64(vxFresh(name))) }
func vInt(name string, lo, hi int) int {
	i := int(vxI64(vxFresh(name)))
	if i < lo || i > hi {
		vx.assumeBad = append(vx.assumeBad, "vInt range "+name)
		panic(vxAbort{"vInt range"})
	}
	return i
}
func vChoice(name string, n int) int { return int(vxI64(vxFresh(name))) }
func vI64(name string) int64         { return vxI64(vxFresh(name)) }
func vString(name string) string {
	v, _ := vxGet(vxFresh(name))
	s, _ := v.(string)
	return s
}

// vTimeStr renders the solver's (empty?, parses?, instant) triple as a real attribute string.
func vTimeStr(name string) string {
	n := vxFresh(name)
	if b, _ := vx.inputs[n+".empty"].(bool); b {
		return ""
	}
	if ok, _ := vx.inputs[n+".ok"].(bool); !ok {
		s, _ := vx.inputs[n].(string)
		if _, err := time.Parse(time.RFC3339, s); err != nil && s != "" {
			return s
		}
		return "not-a-timestamp:" + s
	}
	ns := vxI64(n + ".ns")
	if zero, _ := vx.inputs[n+".zero"].(bool); zero {
		// Go's zero time, spelled with or without an offset
		if z, _ := vx.inputs[n+".z"].(bool); z {
			return "0001-01-01T00:00:00Z"
		}
		return "0001-01-01T02:00:00+02:00"
	}
	if far, _ := vx.inputs[n+".far"].(bool); far {
		// an instant outside the int64-nanosecond range: far future or far past, as the saturated value says
		if ns > 0 {
			return "2300-01-01T00:00:00Z"
		}
		return "1500-01-01T00:00:00Z"
	}
	// the same instant in different RFC 3339 spellings (zone offsets, fractional seconds)
	t := time.Unix(0, ns)
	if z, known := vx.inputs[n+".z"].(bool); known {
		// the model decided whether the string spells its zone as Z (value held in UTC) or with an offset
		if z {
			return t.UTC().Format(time.RFC3339Nano)
		}
		if len(n)%2 == 1 {
			return t.In(time.FixedZone("", 2*3600)).Format(time.RFC3339Nano)
		}
		return t.In(time.FixedZone("", -5*3600-1800)).Format("2006-01-02T15:04:05.000000000Z07:00")
	}
	switch len(n) % 3 {
	case 1:
		return t.In(time.FixedZone("", 2*3600)).Format(time.RFC3339Nano)
	case 2:
		return t.In(time.FixedZone("", -5*3600-1800)).Format("2006-01-02T15:04:05.000000000Z07:00")
	}
	return t.UTC().Format(time.RFC3339Nano)
}

func vInstant(name string) time.Time { return time.Unix(0, vxI64(vxFresh(name))).UTC() }

type vxClock struct {
	*clockwork.FakeClock
	mu    sync.Mutex
	name  string
	reads int
	seen  []time.Time
}

func (c *vxClock) Now() time.Time {
	c.mu.Lock()
	defer c.mu.Unlock()
	k := c.reads
	c.reads++
	key := fmt.Sprintf("%s.now.%d", c.name, k)
	var t time.Time
	if _, ok := vx.inputs[key]; ok {
		t = time.Unix(0, vxI64(key))
		if utc, _ := vx.inputs[key+".utc"].(bool); utc {
			t = t.UTC()
		} else {
			t = t.In(vxLocalZone())
		}
	} else if len(c.seen) > 0 {
		t = c.seen[len(c.seen)-1]
	} else {
		t = time.Date(2030, 1, 1, 0, 0, 0, 0, time.UTC)
	}
	c.seen = append(c.seen, t)
	return t
}

// vxLocalZone: the zone of non-UTC clock readings: Europe/Berlin (daylight saving) from the toolchain's embedded
// zone data, a fixed +02:00 offset if that is unavailable.
func vxLocalZone() *time.Location {
	if loc, err := time.LoadLocation("Europe/Berlin"); err == nil {
		return loc
	}
	return time.FixedZone("vx", 2*3600)
}

func vClock(name string) *dsig.Clock {
	c := &vxClock{FakeClock: clockwork.NewFakeClockAt(time.Unix(0, 0)), name: name}
	vx.clocks[name] = c
	return dsig.NewFakeClock(c)
}

func vAssume(c bool) {
	if !c {
		vx.assumeBad = append(vx.assumeBad, "assume")
		panic(vxAbort{"assume"})
	}
}
func vAssert(id string, c bool) {
	if !c {
		vx.failed = append(vx.failed, id)
	}
}
// vAssertModel (native): facts only the model observes cannot be evaluated here
func vAssertModel(id string, c bool) {}

func vReach(label string, c bool) {
	if c {
		vx.reached = append(vx.reached, label)
	}
}
func vNote(s string) {}

func vAnd(a, b bool) bool     { return a && b }
func vOr(a, b bool) bool      { return a || b }
func vNot(a bool) bool        { return !a }
func vImplies(a, b bool) bool { return !a || b }
func vIff(a, b bool) bool     { return a == b }
func vIteS(c bool, a, b string) string {
	if c {
		return a
	}
	return b
}
func vIteI(c bool, a, b int64) int64 {
	if c {
		return a
	}
	return b
}
func vIteB(c bool, a, b bool) bool {
	if c {
		return a
	}
	return b
}

func vParseOK(s string) bool {
	_, err := time.Parse(time.RFC3339, s)
	return err == nil
}
func vParseNs(s string) int64 {
	t, err := time.Parse(time.RFC3339, s)
	if err != nil {
		return 0
	}
	return vNs(t)
}

// vNs: nanoseconds since 1970, saturated outside the int64 range (as the model represents such instants)
func vNs(t time.Time) int64 {
	switch {
	case t.Year() > 2261:
		return 1<<63 - 1
	case t.Year() < 1678:
		return -1 << 63
	}
	return t.UnixNano()
}
func vIsUTC(t time.Time) bool { return t.Location() == time.UTC }
func vClockReads(name string) int {
	if c, ok := vx.clocks[name]; ok {
		return c.reads
	}
	return 0
}
func vClockAt(name string, k int) int64 {
	c := vx.clocks[name]
	return c.seen[k].UnixNano()
}
func vWallReads() int               { return 0 }
func vEventCount(prefix string) int { return 0 }
func vPanicked(f func()) (p bool) {
	defer func() {
		if r := recover(); r != nil {
			if _, ok := r.(vxAbort); ok {
				panic(r)
			}
			p = true
		}
	}()
	f()
	return false
}

// ---- C12: blobs and the inflater ----

// vBlob builds real bytes with the solver's properties: the raw presentation is accepted by the
// decoder (first byte 'Y') or is a DEFLATE stream inflating to inflated_len bytes whose first byte says
// whether the decoder accepts the inflated message; inflate_err appends a reserved-type block after them.
func vBlob(name string) []byte {
	n := vxFresh(name)
	if ok, _ := vx.inputs[n+".decode_ok"].(bool); ok {
		return []byte("Yraw message accepted by the decoder")
	}
	T := int(vxI64(n + ".inflated_len"))
	payload := bytes.Repeat([]byte{'x'}, T)
	if ok, _ := vx.inputs[n+".inflated_decode_ok"].(bool); ok && T > 0 {
		payload[0] = 'Y'
	}
	var buf bytes.Buffer
	corrupt, _ := vx.inputs[n+".inflate_err"].(bool)
	// the solver may have constrained the first byte of the raw (compressed) presentation: honour it when a
	// DEFLATE stream can start with that byte (non-final dynamic-Huffman block: low bits 100, HLIT = upper 5 bits)
	if want, _ := vx.inputs[n].(string); !corrupt && len(want) > 0 && want[0]&7 == 4 && want[0]>>3 <= 29 {
		return vxDeflateStartingWith(want[0], payload)
	}
	if corrupt {
		fw, _ := flate.NewWriter(&buf, flate.NoCompression)
		fw.Write(payload)
		fw.Flush()
		buf.WriteByte(0x07) // final block of reserved type 3: invalid
	} else {
		fw, _ := flate.NewWriter(&buf, flate.BestSpeed)
		fw.Write(payload)
		fw.Close()
		// the solver may have fixed the length of the compressed presentation: bytes after the final block are
		// not part of the stream (the inflater stops there), so the stream can be padded to that length
		if want := vxI64(n + ".len"); want > int64(buf.Len()) && want <= 1<<27 {
			buf.Write(make([]byte, int(want)-buf.Len()))
		}
	}
	return buf.Bytes()
}

// vDecodeOK (native): the verdict the model gave for a message of this length, else "starts with Y"
func vDecodeOK(b []byte) bool {
	if len(b) == 0 {
		return false
	}
	for k := 0; k < 8; k++ {
		if _, ok := vx.inputs[fmt.Sprintf("decoder.%d.len", k)]; !ok {
			break
		}
		if vxI64(fmt.Sprintf("decoder.%d.len", k)) == int64(len(b)) {
			v, _ := vx.inputs[fmt.Sprintf("decoder.%d.ok", k)].(bool)
			return v
		}
	}
	return len(b) > 0 && b[0] == 'Y'
}

func vxInflate(b []byte) ([]byte, error) { return io.ReadAll(flate.NewReader(bytes.NewReader(b))) }

func vInflatedLen(b []byte) int64 {
	out, _ := vxInflate(b)
	return int64(len(out))
}
func vInflateErr(b []byte) bool {
	_, err := vxInflate(b)
	return err != nil
}
func vInflatedDecodeOK(b []byte) bool {
	out, _ := vxInflate(b)
	return vDecodeOK(out)
}
func vBytesEq(a, b []byte) bool { return bytes.Equal(a, b) }
func vIsInflateOf(out, in []byte) bool {
	x, _ := vxInflate(in)
	return bytes.Equal(out, x)
}

var vxMemBase uint64

func vMemMark() {
	var ms runtime.MemStats
	runtime.ReadMemStats(&ms)
	vxMemBase = ms.TotalAlloc
}

// vMaterialised (native): bytes allocated since vMemMark, an upper estimate of what the inflater
// materialised (io.ReadAll's growth allocates at most ~5x the final size).
func vMaterialised() int64 {
	var ms runtime.MemStats
	runtime.ReadMemStats(&ms)
	d := int64(ms.TotalAlloc - vxMemBase)
	if d < 1<<17 {
		return 0 // decompressor state and small buffers
	}
	return d
}
func vReadAllCalls() int      { return 0 }
func vReadAllUnlimited() bool { return false }

// ---- C18: scripted crypto/rand ----

type vxRandScript struct {
	pos   int
	reads int
	bytes []byte
}

var vxRand *vxRandScript

func (r *vxRandScript) byteAt(i int) byte {
	for len(r.bytes) <= i {
		k := len(r.bytes)
		key := fmt.Sprintf("rand.%d", k)
		if _, ok := vx.inputs[key]; ok {
			r.bytes = append(r.bytes, byte(vxI64(key)))
		} else {
			var ctr [8]byte
			binary.LittleEndian.PutUint64(ctr[:], uint64(k))
			h := sha256.Sum256(ctr[:])
			r.bytes = append(r.bytes, h[0])
		}
	}
	return r.bytes[i]
}

func (r *vxRandScript) Read(b []byte) (int, error) {
	n := len(b)
	if n > 1 && vxI64("rand.shortread") == 1 {
		n = 1 // the io.Reader contract allows short reads
	}
	for i := 0; i < n; i++ {
		b[i] = r.byteAt(r.pos + i)
	}
	r.pos += n
	r.reads++
	return n, nil
}

func vRandInstall() {
	vxRand = &vxRandScript{}
	rand.Reader = vxRand
}
func vRandPos() int        { return vxRand.pos }
func vRandByte(i int) byte { return vxRand.byteAt(i) }
func vHex(b byte) string   { return fmt.Sprintf("%02x", b) }

// ---- keys ----

// vBytes: the solver's content, padded / cut to the solver's length (length and content are separate
// terms in the encoding).
func vBytes(name string) []byte {
	n := vxFresh(name)
	v, _ := vxGet(n)
	s, _ := v.(string)
	b := []byte(s)
	if _, ok := vx.inputs[n+".len"]; ok {
		L := int(vxI64(n + ".len"))
		if L > 1<<20 {
			L = 1 << 20
		}
		for len(b) < L {
			b = append(b, byte('a'+len(b)%26))
		}
		b = b[:L]
	}
	if len(b) == 0 {
		return nil
	}
	return b
}
func vB64(b []byte) string { return base64.StdEncoding.EncodeToString(b) }
func vStr(b []byte) string { return string(b) }

func vxPrivateField(ctx *dsig.SigningContext, name string) reflect.Value {
	f := reflect.ValueOf(ctx).Elem().FieldByName(name)
	return reflect.NewAt(f.Type(), unsafe.Pointer(f.UnsafeAddr())).Elem()
}
func vCtxSigner(ctx *dsig.SigningContext) crypto.Signer {
	s, _ := vxPrivateField(ctx, "signer").Interface().(crypto.Signer)
	return s
}
func vCtxCerts(ctx *dsig.SigningContext) [][]byte {
	c, _ := vxPrivateField(ctx, "certs").Interface().([][]byte)
	return c
}

// ---- crypto concretisers ----

var vxRSAKeys = map[string]*rsa.PrivateKey{}

func vRSAKey(name string) *rsa.PrivateKey {
	if k, ok := vxRSAKeys[name]; ok {
		return k
	}
	k, err := rsa.GenerateKey(vxOrigRandReader, 2048)
	if err != nil {
		panic(err)
	}
	vxRSAKeys[name] = k
	return k
}

// vWrapKey really wraps payload to key with the declared transport (or returns garbage).
func vWrapKey(name string, key *rsa.PrivateKey, transportAlg, digestAlg string, payload []byte) string {
	n := vxFresh(name)
	if ok, _ := vx.inputs[n+".b64ok"].(bool); !ok {
		return "%%%not-base64%%%"
	}
	var ct []byte
	var err error
	switch transportAlg {
	case "http://www.w3.org/2001/04/xmlenc#rsa-oaep-mgf1p", "http://www.w3.org/2009/xmlenc11#rsa-oaep":
		var h hash.Hash
		switch digestAlg {
		case "", "http://www.w3.org/2000/09/xmldsig#sha1":
			h = sha1.New()
		case "http://www.w3.org/2000/09/xmldsig#sha256":
			h = sha256.New()
		case "http://www.w3.org/2000/09/xmldsig#sha512":
			h = sha512.New()
		default:
			h = sha256.New224()
		}
		ct, err = rsa.EncryptOAEP(h, vxOrigRandReader, &key.PublicKey, payload, nil)
	case "http://www.w3.org/2001/04/xmlenc#rsa-1_5":
		ct, err = rsa.EncryptPKCS1v15(vxOrigRandReader, &key.PublicKey, payload)
	default:
		ct = bytes.Repeat([]byte{0x5a}, 256)
	}
	if err != nil {
		ct = bytes.Repeat([]byte{0x5b}, 256)
	}
	return base64.StdEncoding.EncodeToString(ct)
}

func vxPlainBytes(n string, count int) []byte {
	out := make([]byte, count)
	for i := 0; i < count; i++ {
		out[i] = byte(vxI64(fmt.Sprintf("%s.plain.%02d", n, i)))
	}
	return out
}

// vCipherValue builds a ciphertext of the solver's length whose decryption under key (with the declared
// algorithm) yields the solver's post-decryption bytes (CBC) / opens successfully or not (GCM).
func vCipherValue(name string, alg string, key []byte, maxLen int) string {
	n := vxFresh(name)
	if ok, _ := vx.inputs[n+".b64ok"].(bool); !ok {
		return "%%%not-base64%%%"
	}
	L := int(vxI64(n + ".len"))
	if L < 0 {
		L = 0
	}
	D := make([]byte, L)
	blk, kerr := aes.NewCipher(key)
	switch alg {
	case "http://www.w3.org/2001/04/xmlenc#aes128-cbc", "http://www.w3.org/2001/04/xmlenc#aes256-cbc", "http://www.w3.org/2001/04/xmlenc#tripledes-cbc":
		if kerr == nil && L >= 16 && L%16 == 0 {
			P := vxPlainBytes(n, L-16)
			cipher.NewCBCEncrypter(blk, D[:16]).CryptBlocks(D[16:], P)
		}
	case "http://www.w3.org/2009/xmlenc11#aes128-gcm", "http://www.w3.org/2009/xmlenc11#aes192-gcm", "http://www.w3.org/2009/xmlenc11#aes256-gcm":
		if ok, _ := vx.inputs[n+".gcm_ok"].(bool); ok && kerr == nil && L >= 28 {
			g, _ := cipher.NewGCM(blk)
			ct := g.Seal(nil, D[:12], make([]byte, L-28), nil)
			copy(D[12:], ct)
		}
	}
	return base64.StdEncoding.EncodeToString(D)
}
func vPlainByte(name string, i int) byte { return byte(vxI64(fmt.Sprintf("%s.plain.%02d", name, i))) }
func vCipherLen(cv string) int {
	d, _ := base64.StdEncoding.DecodeString(cv)
	return len(d)
}
func vB64OK(s string) bool {
	_, err := base64.StdEncoding.DecodeString(s)
	return err == nil
}
func vByteAt(b []byte, i int) byte { return b[i] }
func vRSADecryptCalls() int        { return 0 }

func vGCMTagOK(name string) bool {
	ok, _ := vx.inputs[name+".gcm_ok"].(bool)
	return ok
}

// native: vCipherValue seals an all-zero plaintext
func vIsGCMOpened(out []byte) bool {
	for _, b := range out {
		if b != 0 {
			return false
		}
	}
	return true
}

// vB64Str: a string the code will base64-decode: real base64 of the solver's decoded bytes, or not base64.
func vB64Str(name string) string {
	n := vxFresh(name)
	if e, _ := vx.inputs[n+".empty"].(bool); e {
		return ""
	}
	if ok, _ := vx.inputs[n+".ok"].(bool); !ok {
		return "%%%not-base64%%%"
	}
	dec, _ := vx.inputs[n+".dec"].(string)
	b := []byte(dec)
	L := int(vxI64(n + ".declen"))
	for len(b) < L {
		b = append(b, byte('a'+len(b)%26))
	}
	if L >= 0 && L < len(b) {
		b = b[:L]
	}
	if len(b) == 0 {
		return "\n" // a non-empty string that base64-decodes to nothing
	}
	return base64.StdEncoding.EncodeToString(b)
}

var vxUUIDRe = regexp.MustCompile(`^_[0-9a-f]{8}-[0-9a-f]{4}-4[0-9a-f]{3}-[89ab][0-9a-f]{3}-[0-9a-f]{12}$`)

// vIsUnderscoreUUID (native): "_" + canonical v4 UUID whose free bits are the last 16 scripted random bytes.
func vIsUnderscoreUUID(id string) bool {
	if !vxUUIDRe.MatchString(id) {
		return false
	}
	if vxRand == nil || vxRand.pos < 16 {
		return true
	}
	var u [16]byte
	for i := 0; i < 16; i++ {
		u[i] = vxRand.byteAt(vxRand.pos - 16 + i)
	}
	u[6] = (u[6] & 0x0f) | 0x40
	u[8] = (u[8] & 0x3f) | 0x80
	return id == fmt.Sprintf("_%x-%x-%x-%x-%x", u[0:4], u[4:6], u[6:8], u[8:10], u[10:16])
}
func vFormatUTC(layout string, ns int64) string { return time.Unix(0, ns).UTC().Format(layout) }

// ---- SSO / logout concretiser (DESIGN A.4): renders the scenario tree as a real, signed, encrypted message ----

type vxKS struct {
	k *rsa.PrivateKey
	c []byte
}

func (p *vxKS) GetKeyPair() (*rsa.PrivateKey, []byte, error) { return p.k, p.c, nil }

var vxKeyStores = map[string]*vxKS{}

// vxKeyStore: RSA key + self-signed certificate valid 2000..2100, cached per name for the process.
func vxKeyStore(name string) *vxKS {
	if ks, ok := vxKeyStores[name]; ok {
		return ks
	}
	k := vRSAKey(name)
	tpl := &x509.Certificate{SerialNumber: big.NewInt(int64(len(vxKeyStores) + 1)),
		NotBefore: time.Date(2000, 1, 1, 0, 0, 0, 0, time.UTC), NotAfter: time.Date(2100, 1, 1, 0, 0, 0, 0, time.UTC)}
	der, err := x509.CreateCertificate(vxOrigRandReader, tpl, tpl, &k.PublicKey, k)
	if err != nil {
		panic(err)
	}
	ks := &vxKS{k: k, c: der}
	vxKeyStores[name] = ks
	return ks
}

func vIDPStore() dsig.X509CertificateStore {
	c, err := x509.ParseCertificate(vxKeyStore("idp").c)
	if err != nil {
		panic(err)
	}
	return &dsig.MemoryX509CertificateStore{Roots: []*x509.Certificate{c}}
}

// vxIdPKey(i): IdP signing key number i with a certificate whose validity comes from the solver (idpcert.<i>.nb_sec /
// .na_sec); indices no store certificate was made for get the default window 2000..2100.
func vxIdPKey(i int) *vxKS {
	name := fmt.Sprintf("idp#%d", i)
	if ks, ok := vxKeyStores[name]; ok {
		return ks
	}
	k := vRSAKey(name)
	nb, na := time.Date(2000, 1, 1, 0, 0, 0, 0, time.UTC), time.Date(2100, 1, 1, 0, 0, 0, 0, time.UTC)
	if _, ok := vx.inputs[fmt.Sprintf("idpcert.%d.nb_sec", i)]; ok {
		nb = time.Unix(vxI64(fmt.Sprintf("idpcert.%d.nb_sec", i)), 0).UTC()
		na = time.Unix(vxI64(fmt.Sprintf("idpcert.%d.na_sec", i)), 0).UTC()
	}
	tpl := &x509.Certificate{SerialNumber: big.NewInt(int64(1000 + i)), NotBefore: nb, NotAfter: na}
	der, err := x509.CreateCertificate(vxOrigRandReader, tpl, tpl, &k.PublicKey, k)
	if err != nil {
		panic(err)
	}
	ks := &vxKS{k: k, c: der}
	vxKeyStores[name] = ks
	return ks
}

func vStoreCert(i int) *x509.Certificate {
	c, err := x509.ParseCertificate(vxIdPKey(i).c)
	if err != nil {
		panic(err)
	}
	return c
}
func vStoreCertNotBefore(i int) int64 { return vStoreCert(i).NotBefore.UnixNano() }
func vStoreCertNotAfter(i int) int64  { return vStoreCert(i).NotAfter.UnixNano() }

func vhTLSCert() tls.Certificate {
	ks := vxKeyStore("sp")
	return tls.Certificate{Certificate: [][]byte{ks.c}, PrivateKey: ks.k}
}

func vClockBetween(name string, lo, hi int64) {}

func vxSign(el *etree.Element, ks *vxKS) *etree.Element {
	ctx := dsig.NewDefaultSigningContext(ks)
	ctx.Canonicalizer = dsig.MakeC14N10ExclusiveCanonicalizerWithPrefixList("")
	out, err := ctx.SignEnveloped(el)
	if err != nil {
		panic("vx: signing failed: " + err.Error())
	}
	return out
}

// vxProcess strips the reserved attributes and placeholder Signature children and applies real signatures:
// vx-sig=valid -> IdP key (a foreign key when the model chose "certificate rejected" for that element),
// vx-sig=invalid -> foreign key. Children first, so an outer signature covers the inner ones.
func vxProcess(e *etree.Element) *etree.Element {
	for i := 0; i < len(e.Child); i++ {
		if ce, ok := e.Child[i].(*etree.Element); ok {
			ne := vxProcess(ce)
			if ne != ce {
				e.RemoveChildAt(i)
				e.InsertChildAt(i, ne)
			}
		}
	}
	sig, name := "", ""
	signer, keyinfo, many := -1, true, false
	var keep []etree.Attr
	for _, a := range e.Attr {
		if a.Space == "" && a.Key == "vx-sigholder" {
			continue
		}
		if a.Space == "" && strings.HasPrefix(a.Key, "vx-") {
			switch a.Key {
			case "vx-sig":
				sig = a.Value
			case "vx-name":
				name = a.Value
			case "vx-many":
				many = a.Value == "1"
			case "vx-signer":
				signer = int(a.Value[0] - '0')
			case "vx-keyinfo":
				keyinfo = a.Value != "0"
			}
			continue
		}
		keep = append(keep, a)
	}
	holder := false
	for _, a := range e.Attr {
		if a.Space == "" && a.Key == "vx-sigholder" {
			holder = true
		}
	}
	if holder {
		// keep the marker until the parent has been signed; drop the placeholder Signature inside
		keep = append(keep, etree.Attr{Key: "vx-sigholder", Value: "1"})
		for i := 0; i < len(e.Child); i++ {
			if ce, ok := e.Child[i].(*etree.Element); ok && ce.Tag == "Signature" {
				e.RemoveChildAt(i)
				break
			}
		}
	}
	e.Attr = keep
	if many {
		// a very large message: 1100 small elements in front of wherever the signature will go
		for i := 0; i < 1100; i++ {
			e.CreateElement("samlp:SessionIndex").CreateText("s")
		}
	}
	if sig != "" && sig != "none" {
		for i := 0; i < len(e.Child); i++ {
			if ce, ok := e.Child[i].(*etree.Element); ok && ce.Tag == "Signature" && len(ce.Child) == 0 {
				e.RemoveChildAt(i)
				break
			}
		}
	}
	// position of the signature holder among the children (its marker must not be part of the signed content)
	holderIdx := -1
	for i, c := range e.Child {
		if h, ok := c.(*etree.Element); ok && h.SelectAttr("vx-sigholder") != nil {
			h.RemoveAttr("vx-sigholder")
			holderIdx = i
		}
	}
	var out *etree.Element
	switch sig {
	case "valid":
		ks := vxKeyStore("idp")
		if vxI64("dsig.cert-rejected."+name) == 1 {
			ks = vxKeyStore("untrusted")
		}
		if signer >= 0 {
			ks = vxIdPKey(signer)
		}
		out = vxSign(e, ks)
		if !keyinfo {
			// a signature that carries no certificate: KeyInfo is not part of SignedInfo, so it can simply be dropped
			if sg, ok := out.Child[len(out.Child)-1].(*etree.Element); ok && sg.Tag == "Signature" {
				for i, c := range sg.Child {
					if ki, ok := c.(*etree.Element); ok && ki.Tag == "KeyInfo" {
						sg.RemoveChildAt(i)
						break
					}
				}
			}
		}
	case "invalid":
		out = vxSign(e, vxKeyStore("untrusted"))
	default:
		return e
	}
	// a signature holder (vx-sigholder) receives the enveloped Signature: signed while the holder is empty,
	// then moved inside it — the enveloped-signature transform removes it again wherever it sits
	if holderIdx >= 0 && holderIdx < len(out.Child)-1 {
		if h, ok := out.Child[holderIdx].(*etree.Element); ok {
			sigEl := out.Child[len(out.Child)-1].(*etree.Element)
			out.RemoveChildAt(len(out.Child) - 1)
			h.AddChild(sigEl)
		}
	}
	return out
}

func vxWalkCharData(e *etree.Element, f func(parent *etree.Element, i int, c *etree.CharData)) {
	for i := 0; i < len(e.Child); i++ {
		switch c := e.Child[i].(type) {
		case *etree.Element:
			vxWalkCharData(c, f)
		case *etree.CharData:
			f(e, i, c)
		}
	}
}

func vxRenderBytes(root *etree.Element) []byte {
	if root == nil {
		return []byte("")
	}
	// CDATA sections: the IdP signs the canonical form (plain text); the CDATA spelling only exists on the wire
	cp := root.Copy()
	var cdata []string
	vxWalkCharData(cp, func(parent *etree.Element, i int, c *etree.CharData) {
		if c.IsCData() {
			cdata = append(cdata, parent.Tag+"\x00"+c.Data)
			parent.RemoveChildAt(i)
			parent.InsertChildAt(i, etree.NewText(c.Data))
		}
	})
	out := vxProcess(cp)
	if len(cdata) > 0 {
		vxWalkCharData(out, func(parent *etree.Element, i int, c *etree.CharData) {
			for _, k := range cdata {
				if k == parent.Tag+"\x00"+c.Data && !c.IsCData() {
					parent.RemoveChildAt(i)
					parent.InsertChildAt(i, etree.NewCData(c.Data))
				}
			}
		})
	}
	d := etree.NewDocument()
	d.SetRoot(out)
	b, err := d.WriteToBytes()
	if err != nil {
		panic(err)
	}
	return b
}

func vEncodeDoc(name string, root *etree.Element, mode int) string {
	n := vxFresh(name)
	raw := vxRenderBytes(root)
	if rtvalidator.Validate(bytes.NewReader(raw)) != nil {
		vxScreenRejected++
	}
	if fb := vxI64(n + ".first_byte"); fb == ' ' || fb == '\n' || fb == '\t' || fb == '\r' {
		// white space before the root element, as the model chose
		raw = append([]byte{byte(fb)}, raw...)
	} else if fb == 0xEF {
		// a UTF-8 byte order mark in front of the document
		raw = append([]byte{0xEF, 0xBB, 0xBF}, raw...)
	}
	switch mode {
	case 1:
		if vxI64("xmlpartial.leak") == 1 {
			if pg := vxPolyglot(raw, vxI64(n+".inflated_len")); pg != nil {
				return base64.StdEncoding.EncodeToString(pg)
			}
		}
		raw = vxDeflate(vxPadTo(raw, vxI64(n+".inflated_len")))
	case 2:
		raw = append([]byte(`<?xml version="1.0" encoding="ISO-8859-1"?>`), raw...)
	case 3:
		// padding required (length not a multiple of 3), then stripped
		for len(raw)%3 == 0 {
			raw = append(raw, ' ')
		}
		return strings.TrimRight(base64.StdEncoding.EncodeToString(raw), "=")
	}
	return base64.StdEncoding.EncodeToString(raw)
}

// vxPolyglot: a DEFLATE stream of stored blocks that inflates to a document containing doc (plus ignorable text and
// white space, inflatedLen bytes in all) while the stream's own bytes read as the beginning of an unterminated
// XML document: block header 0x20 (non-final, stored) + LEN 0xADC3 + NLEN 0x523C spell " \u00ed<R", and the block
// data continues "esponse ...>". A decoder that tries the raw bytes as XML first therefore decodes the outer
// Response's Destination and Issuer before it fails on the next block header.
func vxPolyglot(doc []byte, inflatedLen int64) []byte {
	const blockLen = 0xADC3
	head := `esponse xmlns="urn:oasis:names:tc:SAML:2.0:protocol" Destination="https://leaked.example/acs" InResponseTo="leaked-by-the-failed-first-decode">`
	tail := `<Issuer xmlns="urn:oasis:names:tc:SAML:2.0:assertion">leaked-by-the-failed-first-decode</Issuer>`
	if len(head)+len(doc)+len(tail) > blockLen || inflatedLen <= blockLen {
		return nil
	}
	first := append([]byte(head), doc...)
	first = append(first, tail...)
	first = append(first, bytes.Repeat([]byte{' '}, blockLen-len(first))...)
	out := append([]byte{0x20, 0xC3, 0xAD, 0x3C, 0x52}, first...)
	rest := inflatedLen - blockLen
	for rest > 0 {
		n := rest
		if n > 65535 {
			n = 65535
		}
		rest -= n
		h := byte(0)
		if rest == 0 {
			h = 1
		}
		out = append(out, h, byte(n), byte(n>>8), ^byte(n), ^byte(n>>8))
		out = append(out, bytes.Repeat([]byte{' '}, int(n))...)
	}
	return out
}

// vxPadTo appends trailing white space (legal after the root element, outside every signature) up to n bytes.
func vxPadTo(b []byte, n int64) []byte {
	if n > 1<<26 {
		n = 1 << 26
	}
	if int64(len(b)) < n {
		b = append(b, bytes.Repeat([]byte{' '}, int(n)-len(b))...)
	}
	return b
}

func vxDeflate(raw []byte) []byte {
	var b bytes.Buffer
	w, _ := flate.NewWriter(&b, flate.BestSpeed)
	w.Write(raw)
	w.Close()
	return b.Bytes()
}

func vEncryptTree(name string, inner *etree.Element, key []byte, compressed bool) string {
	n := vxFresh(name)
	plain := []byte("<<< this plaintext is not XML")
	if inner != nil {
		plain = vxRenderBytes(inner)
		if compressed {
			plain = vxDeflate(vxPadTo(plain, vxI64(n+".inflated_len")))
		}
	}
	blk, err := aes.NewCipher(key)
	if err != nil {
		return base64.StdEncoding.EncodeToString(bytes.Repeat([]byte{0}, 64))
	}
	g, _ := cipher.NewGCM(blk)
	nonce := make([]byte, 12)
	vxOrigRandReader.Read(nonce)
	return base64.StdEncoding.EncodeToString(append(nonce, g.Seal(nil, nonce, plain, nil)...))
}

func vValidateCtxOK(sp *SAMLServiceProvider) bool { return true }
func vValidateCalls() int                         { return 0 }
func vCertRejections() int {
	n := 0
	for k, v := range vx.inputs {
		if strings.HasPrefix(k, "dsig.cert-rejected.") {
			if f, ok := v.(float64); ok && f == 1 {
				n++
			}
		}
	}
	return n
}
func vScreenedEqualsParsed() bool        { return true }
func vScreenCalls() int                  { return 1 }
func vWireInflatedLen(name string) int64 { return 0 }
func vSerialised(doc *etree.Document) string {
	s, _ := doc.WriteToString()
	return s
}

func vDebugErr(label string, err error) {
	if err != nil {
		vx.notes = append(vx.notes, label+": "+err.Error())
	}
}

// vIDString: an xs:ID value. The solver's string is mapped injectively to a valid NCName so that
// equalities between IDs are preserved and XML signature references resolve.
func vIDString(name string) string {
	s := vString(name)
	return fmt.Sprintf("_id%x", []byte(s))
}

func vEmptyStore() dsig.X509CertificateStore                { return &dsig.MemoryX509CertificateStore{} }
func vValidateCtxSince(k int, sp *SAMLServiceProvider) bool { return true }

// vCertBytes: a real certificate for key "sp" with the solver's validity bounds, or garbage / nothing.
func vCertBytes(name string) []byte {
	n := vxFresh(name)
	if vxI64(n+".len") == 0 {
		return nil
	}
	if ok, _ := vx.inputs[n+".x509_ok"].(bool); !ok {
		return []byte("this is not a DER certificate")
	}
	k := vRSAKey("sp")
	tpl := &x509.Certificate{SerialNumber: big.NewInt(7), NotBefore: time.Unix(vxI64(n+".nb_sec"), 0).UTC(), NotAfter: time.Unix(vxI64(n+".na_sec"), 0).UTC()}
	der, err := x509.CreateCertificate(vxOrigRandReader, tpl, tpl, &k.PublicKey, k)
	if err != nil {
		return []byte("certificate creation failed: " + err.Error())
	}
	return der
}
func vX509OK(der []byte) bool {
	_, err := x509.ParseCertificate(der)
	return err == nil
}
func vX509NotBefore(der []byte) int64 {
	c, err := x509.ParseCertificate(der)
	if err != nil {
		return 0
	}
	return c.NotBefore.UnixNano()
}
func vX509NotAfter(der []byte) int64 {
	c, err := x509.ParseCertificate(der)
	if err != nil {
		return 0
	}
	return c.NotAfter.UnixNano()
}
func vX509ParseCalls() int { return 0 }
func vB64Dec(s string) string {
	b, _ := base64.StdEncoding.DecodeString(s)
	return string(b)
}

// ---- C14 / C16 natives ----

func vURL(name string, withParam bool) string {
	n := vxFresh(name)
	base, _ := vx.inputs[n+".base"].(string)
	if vxI64("url.parse.fails") == 1 {
		return "https://idp.example/%zz-invalid-escape"
	}
	u := fmt.Sprintf("https://idp.example/%s/%x", name, []byte(base))
	if withParam {
		t, _ := vx.inputs[n+".tenant"].(string)
		u += "?tenant=" + url.QueryEscape(t)
	}
	return u
}
func vURLBase(u string) string {
	if i := strings.IndexByte(u, '?'); i >= 0 {
		return u[:i]
	}
	return u
}
func vURLTenant(u string) string {
	pu, err := url.Parse(u)
	if err != nil {
		return ""
	}
	return pu.Query().Get("tenant")
}
func vURLHasTenant(u string) bool     { return strings.Contains(u, "?tenant=") }
func vQEsc(s string) string           { return url.QueryEscape(s) }
func vQueryString(name string) string { return vString(name) }
func vDeflated(s string) string {
	var b bytes.Buffer
	w, _ := flate.NewWriter(&b, flate.DefaultCompression)
	w.Write([]byte(s))
	w.Close()
	return b.String()
}
func vBytesOf(s string) []byte { return []byte(s) }
func vSignatureOf(u string) string {
	pu, err := url.Parse(u)
	if err != nil {
		return ""
	}
	return pu.Query().Get("Signature")
}
func vSigVerifies(signatureB64, content string, key *rsa.PrivateKey, hash crypto.Hash) bool {
	sig, err := base64.StdEncoding.DecodeString(signatureB64)
	if err != nil {
		return false
	}
	h := hash.New()
	h.Write([]byte(content))
	return rsa.VerifyPKCS1v15(&key.PublicKey, hash, h.Sum(nil), sig) == nil
}

func vB64AlphabetAxiom() {}

// vSignedHash (native): the hash under which the signature verifies over vxLastSignedContent, tried over
// the hashes goxmldsig supports; the content is supplied by the harness through vSetSignedContent.
var vxSignedContent string

func vSetSignedContent(s string) { vxSignedContent = s }
func vSignedHash(signatureB64 string) crypto.Hash {
	for _, h := range []crypto.Hash{crypto.SHA256, crypto.SHA1, crypto.SHA384, crypto.SHA512} {
		if vSigVerifies(signatureB64, vxSignedContent, vRSAKey("sp"), h) {
			return h
		}
	}
	return 0
}

// vTreeSig (native): serialisation of the element
func vTreeSig(e *etree.Element) string {
	if e == nil {
		return "<nil>"
	}
	d := etree.NewDocument()
	d.SetRoot(e.Copy())
	s, _ := d.WriteToString()
	return s
}

// natively the digest is not observable: the real signature is verified instead by vxVerifyEnveloped
func vDigestCovered(k int) string             { return vxLastCovered }
func vDigestCalls() int                       { return 1 }
func vSignDigestKeyIs(k *rsa.PrivateKey) bool { return true }

var vxLastCovered string

func vSPCertBytes() []byte { return vxKeyStore("sp").c }

// vSignatureCovers (native): the enveloped signature of the returned message really verifies (goxmldsig,
// trusting the SP certificate) after a serialise / re-parse round trip.
func vSignatureCovers(root *etree.Element, sigIndex int) bool {
	d := etree.NewDocument()
	d.SetRoot(root.Copy())
	b, err := d.WriteToBytes()
	if err != nil {
		return false
	}
	d2 := etree.NewDocument()
	if err := d2.ReadFromBytes(b); err != nil || d2.Root() == nil {
		return false
	}
	c, err := x509.ParseCertificate(vxKeyStore("sp").c)
	if err != nil {
		return false
	}
	ctx := dsig.NewDefaultValidationContext(&dsig.MemoryX509CertificateStore{Roots: []*x509.Certificate{c}})
	ctx.Clock = dsig.NewFakeClockAt(time.Date(2030, 1, 1, 0, 0, 0, 0, time.UTC))
	_, err = ctx.Validate(d2.Root())
	if err != nil {
		vx.notes = append(vx.notes, "verify: "+err.Error())
	}
	return err == nil
}

// ---- C16 natives: scan the real page ----

func vFormCount(out []byte, tag string) int {
	return strings.Count(strings.ToLower(string(out)), "<"+tag)
}

// vFormField: value of valueAttr on the first <element ...> (with name="nameAttr" when given); the
// value is HTML-unescaped; escaped=false when the raw attribute text would break out of the attribute.
func vFormField(out []byte, element, nameAttr, valueAttr string) (string, bool, bool) {
	re := regexp.MustCompile(`(?is)<` + regexp.QuoteMeta(element) + `\b([^>]*)>`)
	for _, m := range re.FindAllStringSubmatch(string(out), -1) {
		attrs := m[1]
		if nameAttr != "" && !regexp.MustCompile(`(?i)\bname="`+regexp.QuoteMeta(nameAttr)+`"`).MatchString(attrs) {
			continue
		}
		vm := regexp.MustCompile(`(?is)\b` + regexp.QuoteMeta(valueAttr) + `="([^"]*)"`).FindStringSubmatch(attrs)
		if vm == nil {
			continue
		}
		raw := vm[1]
		return html.UnescapeString(raw), true, !strings.ContainsAny(raw, "<>'")
	}
	return "", false, false
}

func vPostedDocumentSigned(b64doc string) bool {
	b, err := base64.StdEncoding.DecodeString(b64doc)
	if err != nil {
		return false
	}
	return bytes.Contains(b, []byte("SignatureValue"))
}

func vContains(s, sub string) bool { return strings.Contains(s, sub) }

// ---- C17 natives ----

func vTraceStart(sp *SAMLServiceProvider)      {}
func vTraceCut(published *dsig.SigningContext) {}
func vTraceEnd()                               {}
func vGlobalWritesReset()                      {}
func vGlobalWrites() int                       { return 0 }

var vxRaceSP *SAMLServiceProvider

// vhC17SPNative: all goroutines of one round share this SP.
func vhC17SPNative() *SAMLServiceProvider { return vxRaceSP }

// vRaceFree (native): stress the body from `threads` goroutines on a fresh SP, many rounds; the race
// detector (replay binary built with -race for this harness) reports a data race if there is one.
func vRaceFree(threads int, body func()) bool {
	for round := 0; round < 300; round++ {
		vxRaceSP = &SAMLServiceProvider{Clock: dsig.NewFakeClockAt(time.Date(2030, 1, 1, 0, 0, 0, 0, time.UTC)),
			SPKeyStore: vxKeyStore("sp"), SignAuthnRequestsAlgorithm: "http://www.w3.org/2001/04/xmldsig-more#rsa-sha512"}
		var wg sync.WaitGroup
		start := make(chan struct{})
		for g := 0; g < threads+2; g++ {
			wg.Add(1)
			go func() {
				defer wg.Done()
				<-start
				body()
			}()
		}
		close(start)
		wg.Wait()
	}
	return true
}

func vPoolUseAfterPut() int { return 0 }

// vConcurrently (native): the body from many goroutines (at least n, and more than there are processors, so that
// goroutines share the per-processor caches of sync.Pool), 60 rounds each (race-detector replay)
func vConcurrently(n int, body func()) {
	var wg sync.WaitGroup
	start := make(chan struct{})
	if m := 3 * runtime.GOMAXPROCS(0); n < m {
		n = m
	}
	for g := 0; g < n; g++ {
		wg.Add(1)
		go func() {
			defer wg.Done()
			<-start
			for r := 0; r < 60; r++ {
				body()
				runtime.Gosched()
			}
		}()
	}
	close(start)
	wg.Wait()
}

// vConfigSig (native): the exported configuration fields, rendered
func vConfigSig(sp *SAMLServiceProvider) string {
	v := reflect.ValueOf(sp).Elem()
	var b strings.Builder
	for i := 0; i < v.NumField(); i++ {
		f := v.Type().Field(i)
		if f.PkgPath != "" {
			continue
		}
		fmt.Fprintf(&b, "%s=%v;", f.Name, v.Field(i).Interface())
	}
	return b.String()
}

// ---- xmlm differential: canonical rendering of decoded values (same format as the engine's vDump) ----

func vxDumpValue(v reflect.Value, b *strings.Builder, depth int) {
	if depth > 40 {
		b.WriteString("...")
		return
	}
	if v.Type() == reflect.TypeOf(time.Time{}) {
		b.WriteString("T")
		return
	}
	switch v.Kind() {
	case reflect.String:
		b.WriteString(strconv.Quote(v.String()))
	case reflect.Bool:
		fmt.Fprintf(b, "%v", v.Bool())
	case reflect.Int, reflect.Int8, reflect.Int16, reflect.Int32, reflect.Int64:
		fmt.Fprintf(b, "%d", v.Int())
	case reflect.Uint, reflect.Uint8, reflect.Uint16, reflect.Uint32, reflect.Uint64:
		fmt.Fprintf(b, "%d", v.Uint())
	case reflect.Ptr:
		if v.IsNil() {
			b.WriteString("nil")
			return
		}
		b.WriteString("&")
		vxDumpValue(v.Elem(), b, depth+1)
	case reflect.Struct:
		b.WriteString("{")
		for i := 0; i < v.NumField(); i++ {
			f := v.Type().Field(i)
			if f.PkgPath != "" || f.Name == "XMLName" {
				continue
			}
			b.WriteString(f.Name + ":")
			vxDumpValue(v.Field(i), b, depth+1)
			b.WriteString(";")
		}
		b.WriteString("}")
	case reflect.Slice:
		if v.Type().Elem().Kind() == reflect.Uint8 {
			b.WriteString("B")
			return
		}
		b.WriteString("[")
		for i := 0; i < v.Len(); i++ {
			if i > 0 {
				b.WriteString(",")
			}
			vxDumpValue(v.Index(i), b, depth+1)
		}
		b.WriteString("]")
	default:
		b.WriteString("I")
	}
}

func vDump(label string, ok bool, v interface{}) {
	var b strings.Builder
	fmt.Fprintf(&b, "ok=%v ", ok)
	vxDumpValue(reflect.ValueOf(v), &b, 0)
	vx.notes = append(vx.notes, "DUMP "+label+" "+b.String())
}

// ---- a tiny DEFLATE bit writer: an empty non-final dynamic-Huffman block whose header byte is chosen,
// followed by stored blocks carrying the payload ----

type vxBitWriter struct {
	out  []byte
	cur  uint64
	nbit uint
}

func (w *vxBitWriter) bits(v uint64, n uint) {
	w.cur |= v << w.nbit
	w.nbit += n
	for w.nbit >= 8 {
		w.out = append(w.out, byte(w.cur))
		w.cur >>= 8
		w.nbit -= 8
	}
}
func (w *vxBitWriter) align() {
	if w.nbit > 0 {
		w.out = append(w.out, byte(w.cur))
		w.cur, w.nbit = 0, 0
	}
}

// huffman codes are written most-significant bit first
func (w *vxBitWriter) code(c uint64, n uint) {
	for i := int(n) - 1; i >= 0; i-- {
		w.bits((c>>uint(i))&1, 1)
	}
}

func vxDeflateStartingWith(first byte, payload []byte) []byte {
	w := &vxBitWriter{}
	hlit := uint64(first >> 3)
	w.bits(0, 1)    // BFINAL = 0
	w.bits(2, 2)    // BTYPE = 10 (dynamic)
	w.bits(hlit, 5) // HLIT
	w.bits(0, 5)    // HDIST = 0 -> 1 distance code
	w.bits(14, 4)   // HCLEN = 14 -> 18 code length code lengths
	// order: 16,17,18,0,8,7,9,6,10,5,11,4,12,3,13,2,14,1 ; lengths: sym18=2, sym0=1, sym1=2
	order := []int{16, 17, 18, 0, 8, 7, 9, 6, 10, 5, 11, 4, 12, 3, 13, 2, 14, 1}
	for _, sym := range order {
		switch sym {
		case 18, 1:
			w.bits(2, 3)
		case 0:
			w.bits(1, 3)
		default:
			w.bits(0, 3)
		}
	}
	// canonical codes: sym0 -> 0 (1 bit); sym1 -> 10; sym18 -> 11
	zeroRun := func(n int) { // n in 11..138
		w.code(3, 2)
		w.bits(uint64(n-11), 7)
	}
	zeroRun(138)
	zeroRun(118) // 256 zero lengths for literals 0..255
	w.code(2, 2) // length 1 for symbol 256 (end of block)
	for i := 0; i < int(hlit); i++ {
		w.code(0, 1) // symbols 257.. unused
	}
	w.code(0, 1) // the single distance code: unused
	w.code(0, 1) // block data: end-of-block (the only code, length 1)
	// stored blocks with the payload
	for first := true; first || len(payload) > 0; first = false {
		chunk := payload
		if len(chunk) > 65535 {
			chunk = chunk[:65535]
		}
		payload = payload[len(chunk):]
		final := uint64(0)
		if len(payload) == 0 {
			final = 1
		}
		w.bits(final, 1)
		w.bits(0, 2)
		w.align()
		n := len(chunk)
		w.out = append(w.out, byte(n), byte(n>>8), byte(^n), byte((^n)>>8))
		w.out = append(w.out, chunk...)
	}
	return w.out
}

// vMarshalRoundTrip (native): v marshals to well-formed XML that unmarshals into out.
func vMarshalRoundTrip(v interface{}, out interface{}) bool {
	b, err := xml.Marshal(v)
	if err != nil {
		vx.notes = append(vx.notes, "marshal: "+err.Error())
		return false
	}
	if err := xml.Unmarshal(b, out); err != nil {
		vx.notes = append(vx.notes, "unmarshal: "+err.Error())
		return false
	}
	return true
}

// natively the hash / canonicaliser really used are checked by verifying the signature (vSignatureCovers)
func vDigestHashIs(k int, h crypto.Hash) bool         { return true }
func vDigestCanonIs(k int, c dsig.Canonicalizer) bool { return true }

// vScreenRejections (native): whether xml-roundtrip-validator rejects one of the documents the concretiser produced
func vScreenRejections() int { return vxScreenRejected }

var vxScreenRejected int

// natively the configuration is compared before/after (vConfigSig); writes are not observable
func vWatch(sp *SAMLServiceProvider)        {}
func vWatchedWritesExcept(field string) int { return 0 }
