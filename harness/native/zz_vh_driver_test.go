//go:build verif

package saml2

import (
	"encoding/json"
	"fmt"
	"os"
	"runtime/debug"
	"testing"
)

type vxJob struct {
	ID      string                 `json:"id"`
	Harness string                 `json:"harness"`
	Inputs  map[string]interface{} `json:"inputs"`
}

type vxResult struct {
	ID        string   `json:"id"`
	Failed    []string `json:"failed"`
	Reached   []string `json:"reached"`
	AssumeBad []string `json:"assume_bad"`
	Panic     string   `json:"panic"`
	Unknown   bool     `json:"unknown_harness"`
	Notes     []string `json:"notes"`
}

func TestVXReplay(t *testing.T) {
	b, err := os.ReadFile(os.Getenv("VX_REPLAY_FILE"))
	if err != nil {
		t.Fatal(err)
	}
	var jobs []vxJob
	if err := json.Unmarshal(b, &jobs); err != nil {
		t.Fatal(err)
	}
	// no garbage collection during a replay: sync.Pool contents (and with them the aliasing a counterexample relies
	// on) survive exactly as in a busy process between two collections; TotalAlloc-based measurements do not need it
	debug.SetGCPercent(-1)
	for _, j := range jobs {
		res := vxResult{ID: j.ID}
		h, ok := vxHarnesses[j.Harness]
		if !ok {
			res.Unknown = true
		} else {
			vxReset(j.Inputs)
			func() {
				defer func() {
					if r := recover(); r != nil {
						if _, ok := r.(vxAbort); ok {
							return
						}
						res.Panic = fmt.Sprintf("%v\n%s", r, debug.Stack())
					}
				}()
				h()
			}()
			res.Failed, res.Reached, res.AssumeBad, res.Notes = vx.failed, vx.reached, vx.assumeBad, vx.notes
		}
		out, _ := json.Marshal(res)
		fmt.Printf("VXRESULT %s\n", out)
	}
}
